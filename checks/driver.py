import os
import sys


def main(argv):
    if not argv:
        print("usage: check <ID> [--tier quick|thorough] [--replay file]")
        return 2
    prop = argv[0]
    args = argv[1:]
    if "--tier" in args:
        os.environ["VERIF_TIER"] = args[args.index("--tier") + 1]
    if "--replay" in args:
        from checks import replay

        return replay.main(prop, args[args.index("--replay") + 1])
    from vlib import common

    common.use_repo()
    if prop in ("C01", "C02", "C03", "C04", "C07"):
        from checks import rxprops

        return rxprops.main(prop)
    mod = __import__(f"checks.{prop.lower()}", fromlist=["main"])
    return mod.main()


if __name__ == "__main__":
    sys.exit(main(sys.argv[1:]))
