from checks import lxprops


def main():
    return lxprops.main_for("C16")


def replay(rec):
    return lxprops.replay(rec)
