"""C17: failures are loud — an unscanned input is never reported as 'not found'.
Solver-decided fault families (CrossHair on the real code, fault parameters symbolic):
  F1 disassembler: subprocess.run raises FileNotFoundError / CalledProcessError(symbolic non-zero code) / returns a symbolic
     return code; Path.exists symbolic: disassemble returns only for exists and rc == 0, otherwise raises, and
     ComposableProducer.process_file then never reaches parse/finalize;
  F2 assembly file: open() raises a symbolically chosen OSError subclass: it propagates;
  F3 repetition bounds: symbolic (min, max): TimesType/TimesTypeBuilder raise for min < 0 or max < min and otherwise
     emit exactly the quantifier text {n} / {min,max} (None for (1,1));
  F4 config value types: _load_full_match_options / _load_sections with Union-typed symbolic values raise unless the
     value has the documented type.
Finite shape faults (single points, executed concretely and exhaustively — the builders are match/case based): each is
injected alone into valid (rule, input) pairs whose fault-free verdict is 'found', in assembly mode and (file/disassembler
faults) binary mode; the operation must raise, never return False / []."""
import copy
import os
import sys

import yaml

from vlib import ch, common, jasmapi
from vlib.common import Run, tier

PRE = '''
import subprocess as _real_subprocess
import jasm.stringify_asm.implementations.shell_disassembler as _sd
import jasm.stringify_asm.implementations.null_disassembler as _nd
from jasm.stringify_asm.implementations.shell_disassembler import ShellDisassembler
from jasm.stringify_asm.implementations.null_disassembler import NullDisassembler
from jasm.stringify_asm.implementations.composable_producer import ComposableProducer
from jasm.global_definitions import BinaryFileFormatNotSupported, TimesType, JASMConfig
from jasm.jasm_regex.tree_generators.pattern_node_implementations.time_type_builder import TimesTypeBuilder
from typing import Union

class _Result:
    def __init__(self, rc):
        self.returncode = rc
        self.stdout = "TEXT"
        self.stderr = "ERR"

class _Subprocess:
    CalledProcessError = _real_subprocess.CalledProcessError
    mode = 0
    code = 0
    partial = ""
    stderr_text = "bad format"
    @classmethod
    def run(cls, argv, **kw):
        if cls.mode == 1:
            raise FileNotFoundError(argv[0])
        if cls.mode == 2:
            # a disassembler that fails may have written a banner / a partial listing to stdout already
            raise _real_subprocess.CalledProcessError(cls.code, argv, cls.partial, cls.stderr_text)
        return _Result(cls.code)
_sd.subprocess = _Subprocess
_sd.CalledProcessError = _real_subprocess.CalledProcessError

class _Path:
    exists_value = True
    def __init__(self, p):
        pass
    def exists(self):
        return _Path.exists_value
_sd.Path = _Path

class _Parser:
    parsed = 0
    def parse(self, file, iConsumer):
        _Parser.parsed += 1

class _Consumer:
    finalized = 0
    def consume_instruction(self, inst):
        pass
    def finalize(self):
        _Consumer.finalized += 1
'''


def harnesses(t):
    T = 60 if t == "quick" else 240
    hs = []
    hs.append(ch.H("c17/F1_disassembler", '''def f1(mode: int, code: int, exists: bool, partial: str) -> bool:
    """
    pre: 0 <= mode <= 2 and -3 <= code <= 300 and len(partial) <= 2
    post: _
    """
    _Subprocess.mode, _Subprocess.code, _Path.exists_value = mode, code, exists
    _Subprocess.partial = partial
    _Parser.parsed = 0
    _Consumer.finalized = 0
    raised = None
    try:
        ComposableProducer(ShellDisassembler("objdump", ["-d"]), _Parser()).process_file("f.bin", _Consumer())
    except Exception as e:
        raised = e
    healthy = exists and mode == 0 and code == 0
    if healthy:
        return raised is None and _Parser.parsed == 1 and _Consumer.finalized == 1
    # any fault: an exception, and the listing is neither parsed nor matched
    return raised is not None and _Parser.parsed == 0 and _Consumer.finalized == 0
''', timeout=T, prelude=PRE, key="F1_disassembler", note="symbolic fault kind, exit code, file existence, partial stdout of a failing disassembler"))
    hs.append(ch.H("c17/F1b_objdump_with_sections", '''def f1b(mode: int, code: int, nsec: int, sec_msg: bool, partial: str) -> bool:
    """
    pre: 1 <= mode <= 2 and 1 <= code <= 3 and 0 <= nsec <= 2 and len(partial) <= 2
    post: _
    """
    # the real GNU objdump front end, with config.sections set or not: a failing run is an error whatever objdump printed
    from jasm.global_definitions import JASMConfig, DisassStyle
    from jasm.stringify_asm.implementations.gnu_objdump.gnu_objdump_disassembler import GNUObjdumpDisassembler
    JASMConfig.get_instance().load_config({"sections": [".text", ".init"][:nsec]} if nsec else {})
    _Subprocess.mode, _Subprocess.code, _Path.exists_value = mode, code, True
    _Subprocess.partial = partial
    _Subprocess.stderr_text = "objdump: section '.text' mentioned in a -j option, but not found in any input file" if sec_msg else "objdump: f.bin: file format not recognized"
    _Parser.parsed = 0
    _Consumer.finalized = 0
    raised = None
    try:
        ComposableProducer(GNUObjdumpDisassembler(DisassStyle.att), _Parser()).process_file("f.bin", _Consumer())
    except Exception as e:
        raised = e
    return raised is not None and _Parser.parsed == 0 and _Consumer.finalized == 0
''', timeout=T, prelude=PRE, key="F1_disassembler", note="GNUObjdumpDisassembler with 0-2 configured sections; failing objdump with either diagnostic text"))
    hs.append(ch.H("c17/F2_open", '''def f2(k_missing: bool, k_perm: bool, k_dir: bool, k_decode: bool) -> bool:
    """
    post: _
    """
    if k_missing:
        exc = FileNotFoundError("fault")
    elif k_perm:
        exc = PermissionError("fault")
    elif k_dir:
        exc = IsADirectoryError("fault")
    elif k_decode:
        exc = UnicodeDecodeError("utf-8", b"x", 0, 1, "bad")
    else:
        exc = OSError("fault")
    def _open(path, mode="r", encoding=None):
        raise exc
    _nd.open = _open
    _Parser.parsed = 0
    _Consumer.finalized = 0
    raised = None
    try:
        ComposableProducer(NullDisassembler(), _Parser()).process_file("f.s", _Consumer())
    except Exception as e:
        raised = e
    return raised is exc and _Parser.parsed == 0 and _Consumer.finalized == 0
''', timeout=T, prelude=PRE, key="F2_open", note="symbolically chosen OSError subclass / decode error from open()"))
    hs.append(ch.H("c17/F3_times", '''def f3(a: int, b: int) -> bool:
    """
    pre: -3 <= a <= 12 and -3 <= b <= 12
    post: _
    """
    try:
        r = TimesTypeBuilder.get_min_max_regex(TimesType(a, b))
    except ValueError:
        return a < 0 or b < a
    if a < 0 or b < a:
        return False          # a bound pair that cannot be a quantifier reached the regex text
    if a == 1 and b == 1:
        return r is None
    if a == b:
        return r == "{" + str(a) + "}"
    return r == "{" + str(a) + "," + str(b) + "}"
''', timeout=max(T, 200), prelude=PRE, key="F3_times", note="symbolic (min,max) in -3..12: invalid pairs raise, valid pairs give the exact quantifier text"))
    hs.append(ch.H("c17/F4_full_match_types", '''def f4a(which: bool, v: Union[bool, int, str, None, float]) -> bool:
    """
    post: _
    """
    cfg = {"mnemonics-full-match": v} if which else {"operands-full-match": v}
    try:
        JASMConfig.get_instance()._load_full_match_options(cfg)
    except ValueError:
        return not isinstance(v, bool)
    return isinstance(v, bool)
''', timeout=T, prelude=PRE, key="F4_config_types", note="Union-typed symbolic config value"))
    hs.append(ch.H("c17/F4_sections_types", '''def f4b(kind: int, s: str, n: int) -> bool:
    """
    pre: 0 <= kind <= 5 and len(s) <= 2
    post: _
    """
    values = ([s], s, n, None, [s, n], {"a": s})
    v = values[kind]
    try:
        JASMConfig.get_instance()._load_sections({"sections": v})
    except ValueError:
        return kind != 0
    return kind == 0
''', timeout=T, prelude=PRE, key="F4_config_types", note="sections must be a list of strings"))
    return hs


# ------------------------------------------------------------------ finite shape faults (concrete, exhaustive)
LISTING = "\n".join([
    "0000000000001000 <f>:",
    "    1000:\t48 89 c3             \tmov    %rax,%rbx",
    "    1003:\t48 8b 40 08          \tmov    0x8(%rax),%rax",
    "    1007:\te8 15 00 00 00       \tcall   20 <g>",
    "    100c:\tc3                   \tret",
]) + "\n"

VALID = [
    {"pattern": ["mov", {"call": ["20"]}, "ret"]},
    {"config": {"mnemonics-full-match": True}, "macros": [{"name": "@m", "pattern": "mov"}], "pattern": [{"@m": {"times": 2}}, "call"]},
    {"pattern": [{"mov": [{"$deref": {"main_reg": "%rax", "constant_offset": "0x8"}}]}, {"$not": ["ret"]}, {"$or": ["ret", "nop"]}]},
    {"pattern": [{"$and_any_order": ["call", {"mov": ["0x8"]}]}, {"ret": {"times": {"min": 1, "max": 2}}}]},
]


def shape_faults(doc):
    """yield (fault name, faulty document) — each fault alone"""
    def with_pattern(p):
        d = copy.deepcopy(doc)
        d["pattern"] = p
        return d

    pat = doc["pattern"]
    d = copy.deepcopy(doc)
    del d["pattern"]
    yield "missing_pattern", d
    # (a mapping-valued pattern is tolerated by the DSL: it is read as the list of its items, so it is not a fault)
    for name, v in (("pattern_str", "mov"), ("pattern_none", None), ("pattern_int", 3), ("pattern_empty_list", [])):
        yield name, with_pattern(v)
    for name, v in (("config_list", ["x"]), ("config_str", "full"), ("config_int", 1)):
        d = copy.deepcopy(doc)
        d["config"] = v
        yield name, d
    for name, v in (("macros_dict", {"name": "@m", "pattern": "mov"}), ("macros_str", "@m")):
        d = copy.deepcopy(doc)
        d["macros"] = v
        yield name, d
    for name, v in (("mnemonics_full_match_str", {"mnemonics-full-match": "yes"}), ("operands_full_match_int", {"operands-full-match": 1}), ("sections_str", {"sections": ".text"}), ("sections_list_of_int", {"sections": [1]}), ("valid_addr_range_str", {"valid_addr_range": "0x10-0x20"}), ("valid_addr_range_nonhex", {"valid_addr_range": {"min": "zz", "max": "10"}})):
        d = copy.deepcopy(doc)
        d["config"] = v
        yield name, d
    for op in ("$or", "$and", "$and_any_order", "$not"):
        yield f"empty_group_{op[1:]}", with_pattern(pat + [{op: []}])
    # ... the same in OPERAND position (a different node class compiles it)
    yield "not_arity_2_operand", with_pattern([{"mov": [{"$not": ["%rax", "%rbx"]}, "%rbx"]}] + pat[1:])
    yield "not_arity_0_operand", with_pattern([{"mov": [{"$not": []}, "%rbx"]}] + pat[1:])
    yield "not_arity_2", with_pattern(pat + [{"$not": ["a", "b"]}])
    yield "not_arity_3", with_pattern(pat + [{"$not": ["a", "b", "c"]}])
    yield "deref_without_main_reg", with_pattern([{"mov": [{"$deref": {"constant_offset": "0x8"}}]}] + pat)
    yield "deref_empty", with_pattern([{"mov": [{"$deref": {}}]}] + pat)
    yield "deref_without_main_reg_with_index", with_pattern([{"mov": [{"$deref": {"register_multiplier": "%rcx", "constant_multiplier": 4, "constant_offset": "0x8"}}]}] + pat)
    yield "deref_without_main_reg_index_only", with_pattern([{"mov": [{"$deref": {"register_multiplier": "%rcx", "constant_multiplier": 4}}]}] + pat)
    for name, t in (("times_negative_int", -1), ("times_negative_min", {"min": -1, "max": 1}), ("times_inverted", {"min": 2, "max": 1}), ("times_only_max_0", {"max": 0}), ("times_negative_both", {"min": -2, "max": -1})):
        yield name, with_pattern([{"mov": {"times": t}}] + pat[1:]) if isinstance(pat[0], str) else with_pattern(pat + [{"nop": {"times": t}}])
        yield name + "_group", with_pattern(pat + [{"$or": ["nop", "ret"], "times": t}])
    # undefined macro (some other macro is defined, see C19 for every position)
    d = copy.deepcopy(doc)
    d["macros"] = list(d.get("macros", [])) + [{"name": "@other", "pattern": "nop"}]
    d["pattern"] = pat + ["@undefined"]
    yield "undefined_macro_item", d
    d = copy.deepcopy(d)
    d["pattern"] = pat + [{"@undefined": {"times": 1}}]
    yield "undefined_macro_key", d
    # a reference that is a near miss of a defined macro / not an identifier is still an undefined reference
    for nm, ref in (("hyphen", "@load-store"), ("dot", "@load.store"), ("digit_first", "@2nd")):
        d = copy.deepcopy(doc)
        d["macros"] = list(d.get("macros", [])) + [{"name": "@load_store", "pattern": "mov"}]
        d["pattern"] = [ref] + pat
        yield f"undefined_macro_odd_spelling_{nm}", d
    # undefined macro inside the body of the last (only) macro, as a plain list element / operand
    d = copy.deepcopy(doc)
    d["macros"] = list(d.get("macros", [])) + [{"name": "@wrap", "pattern": [{"$or": [{"xor": ["@undefined", "@undefined"]}, "nop"]}]}]
    d["pattern"] = pat + ["@wrap"]
    yield "undefined_macro_in_last_macro_body", d
    # address-range bounds written as YAML integers (unquoted 0x1000) instead of strings
    d = copy.deepcopy(doc)
    d["config"] = dict(d.get("config") or {}, valid_addr_range={"min": 0x1000, "max": 0x2000})
    yield "valid_addr_range_int_bounds", d
    # undefined macro with NO macro definition anywhere
    d = copy.deepcopy(doc)
    d.pop("macros", None)
    if not any("@" in str(x) for x in d["pattern"]):
        d["pattern"] = d["pattern"] + ["@undefined"]
        yield "undefined_macro_no_macros_section", d


def concrete_faults(run, t):
    from jasm.global_definitions import InputFileType, MatchConfig, MatchingReturnMode, MatchingSearchMode
    from jasm.match import MasterOfPuppets

    samples = []
    n = 0
    for vi, doc in enumerate(VALID):
        base = jasmapi.run_pipeline(copy.deepcopy(doc), LISTING, all_matches=True, ret="list")
        if not base:
            run.harness_error(f"valid pair {vi} is not 'found' without a fault: {base}")
            continue
        for name, bad in shape_faults(doc):
            for ret in ("bool", "list"):
                n += 1
                run.count("fault_evaluations")
                try:
                    res = jasmapi.run_pipeline(copy.deepcopy(bad), LISTING, all_matches=True, ret=ret)
                    outcome = f"returned {res!r}"
                    loud = False
                except Exception as e:
                    outcome = f"raised {type(e).__name__}"
                    loud = True
                if len(samples) < 12 and ret == "bool":
                    samples.append({"valid_pair": vi, "fault": name, "outcome": outcome})
                if not loud:
                    run.failure(f"shape/{name}", f"valid pair {vi}, fault {name}, return mode {ret}: {outcome} (no error)", {"kind": "shape", "doc": bad, "fault": name})
                elif ret == "bool":
                    # the SAME faulty operation once more in this process: it must be refused every time, not only the first
                    run.count("fault_evaluations")
                    try:
                        res = jasmapi.run_pipeline(copy.deepcopy(bad), LISTING, all_matches=True, ret=ret)
                        run.failure(f"shape/{name}/repeated", f"valid pair {vi}, fault {name}: raised the first time, returned {res!r} when the same operation was repeated in the process", {"kind": "shape", "doc": bad, "fault": name, "repeat": True})
                    except Exception:
                        pass
    # file-level faults, assembly and binary mode
    with jasmapi.scratch() as d:
        rp = os.path.join(d, "r.yaml")
        open(rp, "w").write(yaml.safe_dump(VALID[0], sort_keys=False))
        ap = os.path.join(d, "a.s")
        open(ap, "w").write(LISTING)
        bad_yaml = os.path.join(d, "bad.yaml")
        open(bad_yaml, "w").write("pattern:\n  - mov\n   - : [\n")
        tab_yaml = os.path.join(d, "tab.yaml")
        open(tab_yaml, "w").write("pattern:\n  - mov\n  - mov\n\t- call\n")   # one line indented with a TAB: not YAML
        notobj = os.path.join(d, "notobj.bin")
        open(notobj, "w").write("this is not an object file\n")
        unread = os.path.join(d, "unreadable.s")
        os.mkdir(unread)  # a directory where a file is expected
        binfile = os.path.join(common.REPO, "tests/binary/smc.bin")
        cases = [
            ("missing_pattern_file", os.path.join(d, "nope.yaml"), ap, InputFileType.assembly),
            ("malformed_yaml", bad_yaml, ap, InputFileType.assembly),
            ("malformed_yaml_tab_indent", tab_yaml, ap, InputFileType.assembly),
            ("pattern_file_is_directory", unread, ap, InputFileType.assembly),
            ("missing_assembly_file", rp, os.path.join(d, "nope.s"), InputFileType.assembly),
            ("assembly_file_is_directory", rp, unread, InputFileType.assembly),
            ("missing_binary_file", rp, os.path.join(d, "nope.bin"), InputFileType.binary),
            ("binary_not_an_object_file", rp, notobj, InputFileType.binary),
            ("binary_is_directory", rp, unread, InputFileType.binary),
            ("missing_macro_file", rp, ap, "macros"),
        ]
        # a missing file whose (legal) name contains characters that shells / glob / expanduser / expandvars treat specially
        for odd in ("fw_dump[1]", "dump_*", "bios (v2)?", "~nobody", "$HOME", "%TEMP%", "{a,b}", "a b"):
            tag = "".join(c if c.isalnum() else "_" for c in odd)
            cases.append((f"missing_assembly_file_odd_name/{tag}", rp, os.path.join(d, odd + ".s"), InputFileType.assembly))
            cases.append((f"missing_pattern_file_odd_name/{tag}", os.path.join(d, odd + ".yaml"), ap, InputFileType.assembly))
            cases.append((f"missing_binary_file_odd_name/{tag}", rp, os.path.join(d, odd + ".bin"), InputFileType.binary))
        for name, rule, inp, ftype in cases:
            for ret in (MatchingReturnMode.bool, MatchingReturnMode.matched_addrs_list):
                n += 1
                run.count("fault_evaluations")
                try:
                    if ftype == "macros":
                        cfg = MatchConfig(rule, inp, InputFileType.assembly, False, ret, MatchingSearchMode.all_finds, [os.path.join(d, "nomacros.yaml")])
                    else:
                        cfg = MatchConfig(rule, inp, ftype, False, ret, MatchingSearchMode.all_finds)
                    res = MasterOfPuppets(cfg).perform_matching()
                    outcome, loud = f"returned {res!r}", False
                except Exception as e:
                    outcome, loud = f"raised {type(e).__name__}", True
                if ret == MatchingReturnMode.bool:
                    samples.append({"fault": name, "outcome": outcome})
                if not loud:
                    run.failure(f"file/{name}", f"fault {name}: {outcome} (no error)", {"kind": "file", "fault": name})
        # disassembler absent: PATH without objdump
        old = os.environ.get("PATH", "")
        try:
            os.environ["PATH"] = d
            n += 1
            run.count("fault_evaluations")
            try:
                res = MasterOfPuppets(MatchConfig(rp, binfile, InputFileType.binary, False, MatchingReturnMode.bool, MatchingSearchMode.first_find)).perform_matching()
                run.failure("file/disassembler_absent", f"objdump not on PATH: returned {res!r}", {"kind": "file", "fault": "disassembler_absent"})
            except Exception as e:
                samples.append({"fault": "disassembler_absent", "outcome": f"raised {type(e).__name__}"})
        finally:
            os.environ["PATH"] = old
    return n, samples


def main():
    run = Run("C17", "fault_enumeration", "CH")
    hs = harnesses(tier())
    ch.run_harnesses(run, hs)
    n, samples = concrete_faults(run, tier())
    run.samples = samples[:14] + run.samples[:6]
    distinct = len({(s.get("fault"), s.get("valid_pair")) for s in samples}) + len(hs)
    cov = {
        "evaluations": n + run.counts.get("harness_runs", 0),
        "distinct_nontrivial": max(distinct, len(hs)),
        "rule": "solver-decided families F1-F4 (CrossHair conditions with symbolic fault parameters: fault kind, exit code, file existence, exception class, (min,max), config value of Union type) + finite shape faults injected one at a time into each of the valid (rule, input) pairs whose fault-free verdict is 'found', in bool and list return modes, assembly mode and (file/disassembler faults) binary mode; non-trivial = the injected document/file differs from the valid one in exactly one place",
        "exhaustive": True,
        "solver_families_confirmed": run.counts.get("ch:confirmed", 0),
        "solver_families": [h.name for h in hs],
        "valid_pairs": VALID,
        "source_hashes": common.file_hashes(["src/jasm/stringify_asm/implementations/shell_disassembler.py", "src/jasm/stringify_asm/implementations/null_disassembler.py", "src/jasm/jasm_regex/yaml2regex.py", "src/jasm/global_definitions.py", "src/jasm/jasm_regex/tree_generators/pattern_node_builder.py", "src/jasm/jasm_regex/tree_generators/pattern_node_type_builder/ast_builder.py", "src/jasm/jasm_regex/tree_generators/deref_classes.py", "src/jasm/jasm_regex/macro_expander/macro_expander.py"]),
    }
    return run.finish(cov, ["the regex engine's quantifier syntax ({a}, {a,b} with non-negative decimals; a > b is an error) is its documented contract", "PyYAML raises on malformed documents (third party, trusted; exercised concretely)", "shape faults are single points: executed concretely because the builders use match/case class patterns"])


def replay(rec):
    if rec.get("kind") == "shape":
        if rec.get("repeat"):
            try:
                jasmapi.run_pipeline(copy.deepcopy(rec["doc"]), LISTING, all_matches=True, ret="bool")
            except Exception as e:
                print("first evaluation raised", type(e).__name__)
        try:
            r = jasmapi.run_pipeline(rec["doc"], LISTING, all_matches=True, ret="list")
            print("returned", r)
            return 1
        except Exception as e:
            print("raised", type(e).__name__, e)
            return 0
    if rec.get("kind") == "file":
        print("re-run ./check C17 (file fault", rec["fault"], ")")
        return 1
    return ch.replay_record(rec)


if __name__ == "__main__":
    sys.exit(main())
