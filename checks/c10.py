from checks import lxprops


def main():
    return lxprops.main_for("C10")


def replay(rec):
    return lxprops.replay(rec)
