"""C20: the `jasm` command reports what the library computes.
  * CrossHair runs the real jasm.main.main() through the real argparse definition for symbolic option choices
    (--all-matches, --return_only_address, -s / -b / both / neither, 0-2 --macros files, -p present/absent);
    MasterOfPuppets is a recorder, configure_logger a no-op: the MatchConfig handed over must be the intended function of
    the options; a missing -p, both or neither of -s/-b end in SystemExit with a non-zero code; an exception raised by the
    (stubbed) operation propagates out of main().
  * CrossHair runs the real MatchedObserver with a capturing log handler: one 'Matched address: %s' record per hit in
    order and 'RESULT: Pattern found' iff the list is non-empty (compared on record.msg / record.args).
  * validation (not the deciding step): every option combination once as a real subprocess `python -m jasm.main` in a
    scratch working directory against the library result, including the exit status of a failing run."""
import itertools
import json
import os
import subprocess
import sys

from vlib import ch, common
from vlib.common import Run, tier

PRE = '''
import sys as _sys
import jasm.main as _main
from jasm.global_definitions import InputFileType, MatchingSearchMode, MatchingReturnMode

class _OperationFailed(Exception):
    pass

class _Recorder:
    last = None
    fail = False
    performed = 0
    exc = _OperationFailed("operation failed")
    def __init__(self, match_config):
        _Recorder.last = match_config
    def perform_matching(self):
        _Recorder.performed += 1
        if _Recorder.fail:
            raise _Recorder.exc
        return True
_main.MasterOfPuppets = _Recorder
_main.configure_logger = lambda **kw: None
'''

CLI_BODY = '''
    opts = []
    if has_p:
        opts += ["-p", "rule.yaml"]
    if all_matches:
        opts += ["--all-matches"]
    if only_addr:
        opts += ["--return_only_address"]
    inp = []
    if src in (1, 3):
        inp += ["-s", "in.s"]
    if src in (2, 3):
        inp += ["-b", "in.bin"]
    mac = ["--macros"] + mnames[:nmacros] if nmacros else []
    argv = ["jasm"] + (inp + opts if order else opts + inp) + mac
    _sys.argv = argv
    _Recorder.last = None
    _Recorder.fail = fail
    _Recorder.performed = 0
    code = "returned"
    import os as _os
    _saved = (_os.path.exists, _os.path.isfile, _os.stat)
    if fs_exists is not None:
        # the file system is the environment: whether some path exists is an arbitrary answer, the same for every path
        # (only for calls made on behalf of the jasm package; the interpreter's and the tool's own calls see the real answer)
        def _for_jasm():
            f = _sys._getframe(2)
            for _ in range(8):
                if f is None:
                    return False
                if f.f_globals.get("__name__", "").startswith("jasm"):
                    return True
                f = f.f_back
            return False
        def _stub_exists(p, _real=_saved[0]):
            return fs_exists if _for_jasm() else _real(p)
        def _stub_stat(p, *a, _real=_saved[2], **kw):
            if not _for_jasm():
                return _real(p, *a, **kw)
            if fs_exists:
                return _real(_main.__file__)
            raise FileNotFoundError(2, "No such file or directory", str(p))
        _os.path.exists = _os.path.isfile = _stub_exists
        _os.stat = _stub_stat
    try:
        _main.main()
    except SystemExit as e:
        code = e.code
    except Exception as e:
        code = "raised" if e is _Recorder.exc else "other exception"
    finally:
        _os.path.exists, _os.path.isfile, _os.stat = _saved
    usage_error = (not has_p) or src in (0, 3)
    if usage_error:
        return code not in ("returned", "raised", 0, None) and _Recorder.performed == 0
    if fail:
        return code == "raised"
    c = _Recorder.last
    return (
        code == "returned" and _Recorder.performed == 1 and c is not None
        and c.pattern_pathstr == "rule.yaml"
        and c.input_file == ("in.s" if src == 1 else "in.bin")
        and c.input_file_type == (InputFileType.assembly if src == 1 else InputFileType.binary)
        and c.matching_mode == (MatchingSearchMode.all_finds if all_matches else MatchingSearchMode.first_find)
        and c.return_only_address == only_addr
        and c.macros == (mnames[:nmacros] if nmacros else None)
    )
'''

CLI = '''def cli(all_matches: bool, only_addr: bool, src: int, nmacros: int, has_p: bool) -> bool:
    """
    pre: 0 <= src <= 3 and 0 <= nmacros <= 3
    post: _
    """
    fail, order, fs_exists = False, False, None
    mnames = ["z_base.yaml", "a_extra.yaml", "z_base.yaml"]''' + CLI_BODY

CLI_FAIL = '''def cli_fail(all_matches: bool, binary: bool, order: bool, kind: int) -> bool:
    """
    pre: 0 <= kind <= 5
    post: _
    """
    from jasm.global_definitions import BinaryFileFormatNotSupported
    if kind == 0:
        _Recorder.exc = _OperationFailed("operation failed")
    elif kind == 1:
        _Recorder.exc = BinaryFileFormatNotSupported("not an object file")
    elif kind == 2:
        _Recorder.exc = FileNotFoundError("missing")
    elif kind == 3:
        _Recorder.exc = ValueError("bad rule")
    elif kind == 4:
        _Recorder.exc = AssertionError("missing file")
    else:
        _Recorder.exc = KeyError("x")
    only_addr, nmacros, has_p, fail, fs_exists = False, 0, True, True, None
    mnames = []
    src = 2 if binary else 1''' + CLI_BODY

CLI_ORDER = '''def cli_order(all_matches: bool, only_addr: bool, binary: bool, nmacros: int) -> bool:
    """
    pre: 0 <= nmacros <= 1
    post: _
    """
    has_p, fail, order, fs_exists = True, False, True, None
    mnames = ["z_base.yaml"]
    src = 2 if binary else 1''' + CLI_BODY

CLI_PATHS = '''def cli_paths(binary: bool, nmacros: int, exists: bool, name_kind: int, order: bool) -> bool:
    """
    pre: 0 <= nmacros <= 2 and 0 <= name_kind <= 3
    post: _
    """
    # the paths typed on the command line reach the library verbatim: relative paths stay relative (to the cwd), names that
    # look like DSL macro names (@...) or live in another directory are not reinterpreted, whatever exists on disk
    all_matches, only_addr, has_p, fail, fs_exists = True, False, True, False, exists
    if name_kind == 0:
        mnames = ["m.yaml", "lib/m.yaml"]
    elif name_kind == 1:
        mnames = ["@shifts.yaml", "@m"]
    elif name_kind == 2:
        mnames = ["../m.yaml", "./m.yaml"]
    else:
        mnames = ["m.yaml", "m.yaml"]
    src = 2 if binary else 1''' + CLI_BODY

CLI_SPELL = '''def cli_spell(binary: bool, sp_p: int, sp_in: int, sp_m: int, nmacros: int) -> bool:
    """
    pre: 0 <= sp_p <= 2 and 0 <= sp_in <= 2 and 0 <= sp_m <= 1 and 0 <= nmacros <= 1
    post: _
    """
    all_matches, only_addr = True, True   # (their presence is symbolic in c20/cli and c20/cli_order)
    # every legal spelling of an option (short, long, long with '=') hands the SAME value to the library, also for file
    # names that contain '_', '-', '=' or blanks
    pn, inn, mn = "my_rule-v1.yaml", "dump_a=b c.s", "my_macros-x.yaml"
    argv = ["jasm"]
    if sp_p == 0:
        argv += ["-p", pn]
    elif sp_p == 1:
        argv += ["--pattern", pn]
    else:
        argv += ["--pattern=" + pn]
    short, long_ = ("-b", "--binary") if binary else ("-s", "--assembly")
    if sp_in == 0:
        argv += [short, inn]
    elif sp_in == 1:
        argv += [long_, inn]
    else:
        argv += [long_ + "=" + inn]
    if all_matches:
        argv += ["--all-matches"]
    if only_addr:
        argv += ["--return_only_address"]
    if nmacros:
        argv += (["--macros", mn] if sp_m == 0 else ["--macros=" + mn])
    _sys.argv = argv
    _Recorder.last = None
    _Recorder.fail = False
    _Recorder.performed = 0
    code = "returned"
    try:
        _main.main()
    except SystemExit as e:
        code = e.code
    except Exception as e:
        code = "other exception"
    c = _Recorder.last
    return (
        code == "returned" and _Recorder.performed == 1 and c is not None
        and c.pattern_pathstr == pn and c.input_file == inn
        and c.input_file_type == (InputFileType.binary if binary else InputFileType.assembly)
        and c.matching_mode == (MatchingSearchMode.all_finds if all_matches else MatchingSearchMode.first_find)
        and c.return_only_address == only_addr
        and c.macros == ([mn] if nmacros else None)
    )
'''

PRE_LOG = '''
import jasm.matched_observers as _mo
from jasm.matched_observers import MatchedObserver

class _StubLogger:
    """stands for the logging library: records (level, msg, args) exactly as handed over"""
    def __init__(self):
        self.records = []
    def info(self, msg, *args):
        self.records.append(("INFO", msg, args))
    def debug(self, msg, *args):
        self.records.append(("DEBUG", msg, args))
    def warning(self, msg, *args):
        self.records.append(("WARNING", msg, args))
    def error(self, msg, *args):
        self.records.append(("ERROR", msg, args))
'''


def log_harness(lens):
    tag = "".join(map(str, lens))
    return f'''def reporting_{tag}(n: int, h1: str, h2: str, h3: str) -> bool:
    """
    pre: 0 <= n <= 3 and len(h1) == {lens[0]} and len(h2) == {lens[1]} and len(h3) == {lens[2]}
    post: _
    """
    cap = _StubLogger()
    _mo.logger = cap
    hits = [h1, h2, h3][:n]
    obs = MatchedObserver()
    for h in hits:
        obs.regex_matched(h)
    obs.finalize()
    info = [(m, a) for lvl, m, a in cap.records if lvl == "INFO"]
    want = [("Matched address: %s", (h,)) for h in hits]
    want.append(("RESULT: Pattern found\\n", ()) if n > 0 else ("RESULT: Pattern not found\\n", ()))
    return info == want and obs.matched == (n > 0) and obs.addr_list == hits
'''


def harnesses(t):
    T = 120 if t == "quick" else 400
    hs = [ch.H("c20/cli", CLI, timeout=max(T, 240), prelude=PRE, key="cli_options", note="real argparse; presence of every option is symbolic"),
          ch.H("c20/cli_fail", CLI_FAIL, timeout=T, prelude=PRE, key="cli_failure", note="an exception raised by the operation propagates out of main()"),
          ch.H("c20/cli_order", CLI_ORDER, timeout=T, prelude=PRE, key="cli_options", note="options given after the input file"),
          ch.H("c20/cli_paths", CLI_PATHS, timeout=T, prelude=PRE, key="cli_paths", note="macro file names of four shapes (plain, @-prefixed, relative with ./ ../, repeated) reach MatchConfig verbatim whether or not any path exists (os.path.exists/isfile answer an arbitrary constant)")]
    hs.append(ch.H("c20/cli_spell", CLI_SPELL, timeout=T, prelude=PRE, key="cli_options", note="short / long / long=value spelling of -p, -s/-b, --macros chosen symbolically; file names with '_', '-', '=', blank"))
    for lens in [(1, 1, 1), (2, 3, 1)] + ([(3, 3, 3), (4, 1, 2)] if t == "thorough" else []):
        hs.append(ch.H("c20/reporting/" + "".join(map(str, lens)), log_harness(lens), timeout=T, prelude=PRE_LOG, key="reporting", note="0-3 symbolic hits through the real MatchedObserver with a capturing handler"))
    return hs


LISTING = "\n".join([
    "0000000000001000 <f>:",
    "int f(void) { return g(); }",          # a source line as objdump -S interleaves them: not an instruction
    "    1000:\t48 89 c3             \tmov    %rax,%rbx",
    "    1003:\te8 15 00 00 00       \tcall   20 <g>",
    "    1008:\t48 89 c3             \tmov    %rax,%rbx",
    "    100b:\tc3                   \tret",
]) + "\n"


def subprocess_validation(run, t):
    """the real command in a scratch cwd vs the library API"""
    import yaml

    from vlib import jasmapi

    rules = {"found": {"macros": [{"name": "@x", "pattern": "mov"}], "pattern": ["@x"]}, "notfound": {"pattern": ["push"]}, "extra": {"pattern": ["@m"]}}
    combos = list(itertools.product((False, True), (False, True), ("found", "notfound", "extra")))
    if t == "quick":
        combos = combos[::2] + [combos[-1]]
    env = dict(os.environ, PYTHONPATH=common.SRC)
    with jasmapi.scratch() as d:
        open(os.path.join(d, "in.s"), "w").write(LISTING)
        open(os.path.join(d, "m.yaml"), "w").write(yaml.safe_dump({"macros": [{"name": "@m", "pattern": "call"}]}))
        for k, v in rules.items():
            open(os.path.join(d, k + ".yaml"), "w").write(yaml.safe_dump(v, sort_keys=False))
        for n_combo, (allm, addr, rule) in enumerate(combos):
          api = jasmapi.run_pipeline(rules[rule], LISTING, [{"macros": [{"name": "@m", "pattern": "call"}]}] if rule == "extra" else None, all_matches=allm, only_addr=addr, ret="list")
          # the verbosity options only change what else is logged, never the verdict or the addresses
          for extra_flags in ([[], ["--debug"], ["--info"], ["--enable_logging_to_terminal"]][n_combo % 4], ["--debug"]):
            argv = [ch.PY, "-m", "jasm.main", "-p", rule + ".yaml", "-s", "in.s"] + extra_flags + (["--all-matches"] if allm else []) + (["--return_only_address"] if addr else []) + (["--macros", "m.yaml"] if rule == "extra" else [])
            p = subprocess.run(argv, cwd=d, env=env, capture_output=True, text=True, timeout=120)
            logged = [l.split("Matched address: ", 1)[1] for l in p.stderr.splitlines() if "Matched address: " in l]
            found = sum("RESULT: Pattern found" in l for l in p.stderr.splitlines())
            notfound = sum("RESULT: Pattern not found" in l for l in p.stderr.splitlines())
            run.count("traces_validated_against_impl")
            ok = p.returncode == 0 and logged == api and found == (1 if api else 0) and notfound == (0 if api else 1)
            if not ok:
                run.failure("cli/SUBPROCESS", f"argv={argv[2:]} rc={p.returncode} logged={logged} api={api} found={found} notfound={notfound}", {"kind": "cli", "argv": argv[2:]})
        # the listing arrives on a pipe (objdump -d prog | jasm -s /dev/stdin): same report as for the file
        api = jasmapi.run_pipeline(rules["found"], LISTING, None, all_matches=True, only_addr=True, ret="list")
        p = subprocess.run([ch.PY, "-m", "jasm.main", "-p", "found.yaml", "-s", "/dev/stdin", "--all-matches", "--return_only_address"], cwd=d, env=env, input=LISTING, capture_output=True, text=True, timeout=120)
        logged = [l.split("Matched address: ", 1)[1] for l in p.stderr.splitlines() if "Matched address: " in l]
        run.count("traces_validated_against_impl")
        if p.returncode != 0 or logged != api:
            run.failure("cli/STDIN", f"listing piped to -s /dev/stdin: rc={p.returncode} logged={logged} api={api} stderr tail={p.stderr[-160:]!r}", {"kind": "cli", "argv": ["-p", "found.yaml", "-s", "/dev/stdin", "--all-matches", "--return_only_address"]})
        # a long match through the real terminal handler: the logged text must be the API's text, whole
        long_rule = {"pattern": [{"mov": {"times": 12}}]}
        long_listing = "".join(f"    {0x401000 + 3 * i:x}:\t48 89 c3             \tmov    %rax,%rbx\n" for i in range(30))
        open(os.path.join(d, "long.yaml"), "w").write(yaml.safe_dump(long_rule, sort_keys=False))
        open(os.path.join(d, "long.s"), "w").write(long_listing)
        p = subprocess.run([ch.PY, "-m", "jasm.main", "-p", "long.yaml", "-s", "long.s", "--all-matches"], cwd=d, env=env, capture_output=True, text=True, timeout=120)
        logged = [l.split("Matched address: ", 1)[1] for l in p.stderr.splitlines() if "Matched address: " in l]
        api = jasmapi.run_pipeline(long_rule, long_listing, all_matches=True, ret="list")
        run.count("traces_validated_against_impl")
        if logged != api:
            run.failure("cli/LONGMATCH", f"long match: CLI logged {len(logged)} lines of lengths {[len(x) for x in logged]}, API returned lengths {[len(x) for x in api]}", {"kind": "cli", "argv": ["-p", "long.yaml", "-s", "long.s", "--all-matches"]})
        notobj = os.path.join(d, "notobj.bin")
        open(notobj, "w").write("plain text, not an object file\n")
        # failing operation: non-zero exit status
        for argv_tail, why in ((["-p", "missing.yaml", "-s", "in.s"], "missing pattern file"), (["-p", "found.yaml", "-s", "missing.s"], "missing input"), (["-p", "found.yaml", "-b", "notobj.bin"], "binary that objdump rejects"), (["-p", "found.yaml", "-b", "in.s"], "a text listing given with -b (the library refuses it as a binary)"), (["-p", "found.yaml", "-b", "missing.bin"], "missing binary"), (["-p", "found.yaml"], "neither -s nor -b"), (["-s", "in.s"], "no -p"), (["-p", "found.yaml", "-s", "in.s", "-b", "in.s"], "both -s and -b")):
            p = subprocess.run([ch.PY, "-m", "jasm.main"] + argv_tail, cwd=d, env=env, capture_output=True, text=True, timeout=120)
            run.count("traces_validated_against_impl")
            if p.returncode == 0 or "RESULT: Pattern" in p.stderr:
                run.failure("cli/EXITSTATUS", f"{why}: rc={p.returncode} stderr tail={p.stderr[-200:]!r}", {"kind": "cli", "argv": argv_tail})


def main():
    run = Run("C20", "model_checking", "CH")
    hs = harnesses(tier())
    ch.run_harnesses(run, hs)
    subprocess_validation(run, tier())
    cov = {
        "states": len(hs),
        "transitions": run.counts.get("harness_runs", 0),
        "traces_validated_against_impl": run.counts.get("traces_validated_against_impl", 0),
        "explanation": "states = CrossHair conditions (main() through the real argparse for every option combination / order; MatchedObserver reporting for 0-3 symbolic hits); traces = real `python -m jasm.main` subprocess runs compared with the library API",
        "confirmed_over_all_paths": run.counts.get("ch:confirmed", 0),
        "functions_encoded": ["jasm.main.main/start_configurations/decide_assembly_or_binary", "jasm.parse_arguments.parse_args_from_console (real argparse)", "MatchedObserver.regex_matched/finalize"],
        "stubs": ["jasm.main.MasterOfPuppets := recorder (optionally raising)", "jasm.main.configure_logger := no-op", "jasm.matched_observers.logger := recording stub (level, msg, args)"],
        "source_hashes": common.file_hashes(["src/jasm/main.py", "src/jasm/parse_arguments.py", "src/jasm/matched_observers.py", "src/jasm/logging_config.py"]),
    }
    return run.finish(cov, ["argparse and the interpreter's exit-status convention (uncaught exception -> status 1) are trusted; validated by the subprocess runs"])


def replay(rec):
    if rec.get("kind") == "cli":
        print("re-run ./check C20; recorded argv:", rec["argv"])
        return 1
    return ch.replay_record(rec)


if __name__ == "__main__":
    sys.exit(main())
