"""C06: $deref == the memory operand objdump prints as k(a,b,c).
Compiler half (RX): every field combination as languages over the domain of normalised AT&T memory operands.
Parser half (CH): CrossHair on the real operand normaliser, one harness per AT&T form (shared with C09).
Composition: both halves use the same bracket grammar [a+b*c+k]; solver witnesses of the compiler half are rendered
as AT&T text k(a,b,c) and replayed end to end through the real parser and matcher (E2E obligations)."""
import sys

from vlib import ch, common, lemmas
from vlib.common import Run, seed, tier
from checks import c09, templates as T
from checks.rxprops import ASSUME


def main():
    run = Run("C06", "translation_validation", "RX+CH")
    tpls = T.gamma6(tier(), seed())
    lemmas.run_templates(run, tpls)
    # the operand must reach the normaliser in one piece: split points are exactly the separator commas (LX lemma of C09)
    from vlib import common as _c

    _c.use_repo()
    c09.split_lemmas(run)
    from checks import lxprops

    lxprops.rare_shape_battery(run, "C09")   # segment overrides, decorations, r8-r15, 16-bit pairs: operands in normal form
    hs = [h for h in c09.harnesses(tier()) if any(x in h.name for x in ("/mem4/", "/mem4_nobase/", "/mem3/", "/mem1/", "/mem0/", "/mem3_suffix/", "/mem0_suffix/", "/pair4/", "/pair3/"))]
    for h in hs:
        h.key = "parser_" + h.key
    ch.run_harnesses(run, hs)
    cov = {
        "programs": len(tpls),
        "disagreements_checked": run.counts.get("disagreements_replayed", 0),
        "end_to_end_witnesses": run.counts.get("traces_validated_end_to_end", 0),
        "parser_harnesses": len(hs),
        "parser_harnesses_confirmed": run.counts.get("ch:confirmed", 0),
        "rule": "programs = $deref templates: 8 present/absent field combinations x register spellings with/without % x scales (int/str) x displacements (0x.., decimal, negative, 0x0, int 0) x operand position; compared with the bracket-text reference language for every listing in the domain of normalised AT&T memory operands",
        "source_hashes": common.file_hashes(["src/jasm/jasm_regex/tree_generators/deref_classes.py", "src/jasm/jasm_regex/tree_generators/pattern_node_implementations/deref.py", "src/jasm/stringify_asm/implementations/gnu_objdump/asm_manual_parser_w_regex.py"]),
    }
    return run.finish(cov, ASSUME + ["input domain of the compiler half: operand fields containing [ ] + * are memory operands in the normal form the parser half is shown to produce"])


def replay(rec):
    if rec.get("kind") == "ch":
        return ch.replay_record(rec)
    from checks import replay as R

    raise SystemExit(R.main("C06", sys.argv[-1]))


if __name__ == "__main__":
    sys.exit(main())
