"""C01-C04, C07: compiled-regex language == reference language, for every listing (RX engine)."""
import sys

from vlib import common
from vlib.common import Run, tier, seed
from vlib import lemmas
from checks import templates as T

FILES = [
    "src/jasm/global_definitions.py",
    "src/jasm/jasm_regex/yaml2regex.py",
    "src/jasm/jasm_regex/tree_generators/pattern_node_builder.py",
    "src/jasm/jasm_regex/tree_generators/pattern_node_type_builder/ast_builder.py",
    "src/jasm/jasm_regex/tree_generators/pattern_node_implementations/node_branch_root.py",
    "src/jasm/jasm_regex/tree_generators/pattern_node_implementations/mnemonic_and_operand/mnemonic_and_operand.py",
    "src/jasm/jasm_regex/tree_generators/pattern_node_implementations/time_type_builder.py",
    "src/jasm/jasm_regex/tree_generators/pattern_node_implementations/deref.py",
    "src/jasm/jasm_regex/tree_generators/deref_classes.py",
    "src/jasm/jasm_regex/macro_expander/macro_expander.py",
    "src/jasm/consumer.py",
]

ASSUME = [
    "stream grammar WF (vlib/spec.py): REC = [0-9a-f]+ '::' MNEM ',' (FIELD ',')+ '|', fields over [!-~] minus ',' '|' without '::' (this is what C10 asserts; C08/C10 check it on the parser side)",
    "alphabet: printable ASCII; every instruction record shorter than 500 characters, so the compiler's {0,1000} loops are read as unbounded",
    "pattern shape is enumerated from the template grammar (the front end uses match/case class patterns that cannot be run on symbolic trees); the listing is the symbolic object: one free string of unbounded length",
    "third-party `regex` engine trusted to implement the regex subset as the translator does; translator validated per template on solver-chosen members/non-members (VAL) and on the repo's own rule/listing pairs",
    "reference semantics written from the property text (vlib/spec.py as languages, vlib/oracle.py as interpreter used for replay)",
]

GAMMA = {"C01": T.gamma1, "C02": T.gamma2, "C03": T.gamma3, "C04": T.gamma4, "C07": T.gamma7}


def main(prop):
    run = Run(prop, "translation_validation", "RX")
    tpls = GAMMA[prop](tier(), seed())
    ids = set()
    for t in tpls:
        assert t["id"] not in ids, t["id"]
        ids.add(t["id"])
    results = lemmas.run_templates(run, tpls)
    # CrossHair leaf lemmas: lift the enumerated vocabulary / numbers to symbolic names and bounds
    from vlib import ch
    from checks import leafharness

    if prop in ("C01", "C07"):
        lemmas.repo_pairs_validation(run)
    if prop == "C01":
        # the verdict must not depend on WHERE in a long listing the window lies (the lemmas treat the stream as one
        # string of unbounded length; the consumer is only executed here): windows planted around multiples of 2^k
        from checks import c11

        c11.long_listing_probe(run)
    if prop == "C01":
        # "nothing outside that window of instructions influences the verdict" - nor does an EARLIER operation of the process
        # (one with other options: an address range, full-match flags)
        from vlib import jasmapi as _j

        L1 = "".join(f"    {a}:\t{b:<21}\t{t}\n" for a, b, t in [("401126", "e8 05 00 00 00", "call   401130 <f>"), ("40112b", "85 c0", "test   %eax,%eax"), ("40112d", "74 0c", "je     40113b <g>"), ("40112f", "c3", "ret")])
        plain = {"pattern": [{"cal": ["4011"]}, {"tes": ["eax", "ax"]}, {"je": ["40113"]}]}   # names that only match as substrings
        fresh = _j.run_pipeline(plain, L1, only_addr=True)
        # matchers constructed first and run afterwards: each is compiled and run with ITS OWN options
        strict = {"config": {"mnemonics-full-match": True, "operands-full-match": True}, "pattern": [{"cal": ["4011"]}]}
        res = _j.constructed_first_results([strict, plain, strict], L1)
        run.count("traces_validated_against_impl")
        if res != [[], ["401126"], [], []]:
            run.failure("item_sequence/CONSTRUCTED-FIRST", f"three matchers (full-match rule that must not be found, substring rule that must be found, full-match rule) constructed first, then run, the first run twice: {res}, expected [[], ['401126'], [], []]", {"kind": "sequence", "items": [], "seq": []})
        # one matcher object asked twice: the second answer is about the SAME listing, not about the listing followed by itself
        # (a rule made of the last instruction followed by the first one is found only across such a seam)
        seam = {"pattern": ["ret", {"cal": ["4011"]}]}
        res2 = _j.constructed_first_results([seam, plain], L1)
        st2 = _j.constructed_first_results([seam, plain], L1, ret="stream")
        run.count("traces_validated_against_impl", 2)
        if res2 != [[], ["401126"], []] or st2[0] != st2[2]:
            run.failure("item_sequence/ASKED-TWICE", f"rule [ret, call] (last instruction, then the first) on a listing call/test/je/ret, one matcher object run twice: {res2} (expected [[], ['401126'], []]); stream of the second run equals the first: {st2[0] == st2[2]}", {"kind": "sequence", "items": [], "seq": []})
        # the same listing stored with CRLF line ends, under every flag setting (a stray '\r' would only show under full match)
        L2 = "".join(f"    {a}:\t{b:<21}\t{t}\n" for a, b, t in [("1000", "55", "push   %rbp"), ("1001", "48 89 e5", "mov    %rsp,%rbp"), ("1004", "31 c0", "xor    %eax,%eax"), ("1006", "c9", "leave"), ("1007", "c3", "ret")])
        for mf, of in T.FLAGS:
            for nm, text in (("LF", L2), ("CRLF", L2.replace("\n", "\r\n"))):
                for pat, want in (([{"push": ["%rbp"]}, {"mov": ["%rsp", "%rbp"]}], ["1000"]), ([{"xor": ["%eax", "%eax"]}, "leave", "ret"], ["1004"])):
                    got = _j.file_route_stream(text.encode(), T.doc_of(pat, mf, of)) and _j.run_pipeline(T.doc_of(pat, mf, of), text, only_addr=True) if nm == "LF" else None
                    if nm == "CRLF":
                        import os as _os, tempfile as _tf
                        from jasm.global_definitions import InputFileType as _IFT, MatchConfig as _MC, MatchingReturnMode as _MRM, MatchingSearchMode as _MSM
                        from jasm.match import MasterOfPuppets as _MoP
                        import yaml as _yaml
                        with _j.scratch() as _d:
                            _rp, _ap = _os.path.join(_d, "r.yaml"), _os.path.join(_d, "in.s")
                            open(_rp, "w").write(_yaml.safe_dump(T.doc_of(pat, mf, of), sort_keys=False))
                            open(_ap, "wb").write(text.encode())
                            got = _MoP(_MC(pattern_pathstr=_rp, input_file=_ap, input_file_type=_IFT.assembly, return_only_address=True, return_mode=_MRM.matched_addrs_list, matching_mode=_MSM.all_finds)).perform_matching()
                    run.count("traces_validated_against_impl")
                    if got != want:
                        run.failure(f"item_sequence/LINE-ENDS/{nm}", f"rule {pat} flags m{int(mf)}o{int(of)} on the {nm} listing: {got}, expected {want}", {"kind": "sequence", "items": [], "seq": []})
        for nm, earlier in (("address range", {"config": {"valid_addr_range": {"min": "0x401000", "max": "0x401fff"}}, "pattern": ["ret"]}), ("full-match flags", {"config": {"mnemonics-full-match": True, "operands-full-match": True}, "pattern": ["ret"]})):
            _j.run_pipeline(earlier, L1)
            got = _j.run_pipeline(plain, L1, only_addr=True)
            run.count("traces_validated_against_impl")
            if got != ["401126"] or fresh != ["401126"]:
                run.failure("item_sequence/AFTER-EARLIER-OPERATION", f"rule call/test/je on its own window: {fresh} when run first, {got} after an operation with {nm} (expected ['401126'] both times)", {"kind": "sequence", "items": [], "seq": []})
    if prop == "C01":
        # rare but real objdump operand shapes, end to end: the k-th operand NAME is looked for in the k-th OPERAND (the
        # reference normal form of C09 says what the operands are); a rule with the names rotated must not be found there
        import re as _re
        from checks import lxprops as _lx

        lines, recs = [], []
        for i, entry in enumerate(_lx.RARE_LINES):
            raw, m, ops = entry[:3]
            a = format(0x401000 + 8 * i, "x")
            lines.append(f"  {a}:\t{raw:<21}\t{(m + ' ').ljust(7) + ops + (entry[3] if len(entry) > 3 else '') if ops else m}")
            norm = [_lx.reference_normal_form(o) for o in _lx.split_top_level(ops)] if ops else []
            toks = [(_re.findall(r"%[a-z0-9]+|0x[0-9a-f]+|[0-9a-f]{4,}", o) or [None])[0] for o in norm]
            recs.append((a, entry[4] if len(entry) > 4 else m, toks))   # branch hints / prefixes: the rule names the bare mnemonic
        listing = "\n".join(lines) + "\n"
        for a, m, toks in recs:
            if any(t is None for t in toks):
                continue
            cfg1 = {"mnemonics-full-match": True}
            got = _j.run_pipeline({"config": cfg1, "pattern": [{m: toks} if toks else m]}, listing, only_addr=True)
            run.count("traces_validated_against_impl")
            if a not in got:
                run.failure("item/RARE-SHAPE/found", f"instruction at {a}: rule {m}: {toks} (names taken from its own operands, in order) is not found there; found at {got}", {"kind": "sequence", "items": [], "seq": []})
            if len(toks) >= 2 and len(set(toks)) == len(toks) and not any(x in y for x in toks for y in toks if x is not y):
                rot = toks[1:] + toks[:1]
                got2 = _j.run_pipeline({"config": cfg1, "pattern": [{m: rot}]}, listing, only_addr=True)
                run.count("traces_validated_against_impl")
                if a in got2:
                    run.failure("item/RARE-SHAPE/rotated", f"instruction at {a}: rule {m}: {rot} (operand names rotated) is found there although operand k does not contain name k", {"kind": "sequence", "items": [], "seq": []})
    if prop == "C02":
        from checks import c11 as _c11t

        _c11t.times_long_probe(run)
    if prop == "C03":
        from checks import c11 as _c11b

        _c11b.nested_long_probe(run, key="ins_nested/LONG-LISTING")
    if prop == "C04":
        # the typing of a $not must not depend on what was compiled before in the same process
        seq_items = [
            ("operand_not_in_or", {"pattern": [{"mov": [{"$or": [{"$not": ["rcx"]}, "rdx"]}, "rbx"]}]}, None),
            ("instruction_not", {"pattern": [{"$not": ["call"]}, "call"]}, None),
            ("repeated_not", {"pattern": ["ret", {"$not": ["call"], "times": 2}]}, None),
            ("operand_not", {"pattern": [{"push": [{"$not": ["rex"]}]}, "ret"]}, None),
        ]
        # ... nor on the full-match flags of an earlier rule that negates the same name
        for mf, of in T.FLAGS:
            seq_items.append((f"not_flags_{T.ftag(mf, of)}", T.doc_of([{"$not": ["mov"]}, "ret"], mf, of), None))
        for of in (False, True):
            seq_items.append((f"operand_not_flags_o{int(of)}", T.doc_of([{"mov": [{"$not": ["rax"]}, "rbx"]}], False, of), None))
        lemmas.sequence_invariance(run, seq_items, "not_typing")
    FLAG_SEQ = {
        "C01": [("item", [{"mov": ["a", "b"]}, "ab"]), ("hexh", [{"mov": ["10h", "a"]}])],
        "C02": [("times", ["push", {"mov": ["a"], "times": {"min": 1, "max": 2}}, {"$or": ["mov", "add"], "times": 2}, "ret"])],
        "C03": [("ops", ["a", {"$or": ["b", {"$and_any_order": ["c", {"b": ["x"]}]}]}, {"mov": [{"$or": ["x", "y"]}, "c"]}])],
        "C07": [("lead", [{"$or": ["mov", {"add": ["a"]}]}, {"call": ["@any"]}])],
    }
    if prop in FLAG_SEQ:
        # one pattern under the four full-match flag settings (plus a second rule): what a rule compiles to must not depend
        # on the flags or names of a rule compiled earlier in the same process
        seq_items = []
        for nm, pat in FLAG_SEQ[prop]:
            for mf, of in T.FLAGS:
                extra = {"macros": [{"name": "@any", "pattern": "[^, |]{1,1000}"}]} if "@any" in str(pat) else None
                seq_items.append((f"{nm}_{T.ftag(mf, of)}", T.doc_of(pat, mf, of, extra), None))
        lemmas.sequence_invariance(run, seq_items, "flags")
    if prop == "C07":
        # "an address that occurs in the input": the input is the file as it is NOW - the same path holding another listing
        from vlib import jasmapi as _j

        l1 = "".join(f"    {0x401000 + 4 * i:x}:\t48 89 c3             \t{m}\n" for i, m in enumerate(["push   %rbp", "mov    %rsp,%rbp", "call   401100 <f>", "ret"]))
        l2 = "".join(f"    {0x402000 + 4 * i:x}:\t48 89 c3             \t{m}\n" for i, m in enumerate(["nop", "push   %rbp", "mov    %rsp,%rbp", "call   401100"]))
        l2 = l2 + " " * (len(l1) - len(l2)) if len(l2) < len(l1) else l2
        try:
            (a1, s1), (a2, s2) = _j.rewritten_input_results({"pattern": ["push", "mov"]}, l1, l2[:len(l1)] if len(l2) > len(l1) else l2)
            run.count("traces_validated_against_impl")
            if a1 != ["401000"] or a2 != ["402004"] or any(x not in l2 for x in a2):
                run.failure("genuine_address/INPUT-REWRITTEN", f"listing at one path rewritten between two matches: first {a1}, second {a2} (expected ['401000'] then ['402004'], addresses of the CURRENT file)", {"kind": "sequence", "items": [], "seq": []})
        except AssertionError:
            run.harness_error("rewritten-input probe: listings of different length")
        lz = "".join(f"{a}:\t48 89 e5             \t{m}\n" for a, m in (("00001001", "mov    %rsp,%rbp"), ("00001004", "mov    %rax,%rbx"), ("00001007", "ret")))
        for allm in (False, True):
            got = _j.run_pipeline({"pattern": [{"mov": ["rsp", "rbp"]}, "mov"]}, lz, all_matches=allm, only_addr=True)
            run.count("traces_validated_against_impl")
            if got != ["00001001"]:
                run.failure("genuine_address/ZERO-PADDED", f"listing with zero-padded addresses: reported {got}, the first covered instruction's address is written '00001001' in the input", {"kind": "sequence", "items": [], "seq": []})
        from checks import c11 as _c11

        _c11.scan_variants_probe(run, key="genuine_address/SCAN")
        # wrapped raw bytes (a byte-continuation line) under a rule that sets an address range: every reported address is the
        # address of an instruction, never that of the continuation line
        lw = "    401000:\t48 b8 88 77 66 55 44 \tmovabs $0x1122334455667788,%rax\n    401007:\t33 22 11 \n    40100a:\t48 89 c3             \tmov    %rax,%rbx\n    40100d:\tc3                   \tret\n"
        for doc, want in (({"config": {"valid_addr_range": {"min": "0x1", "max": "0x2"}}, "pattern": [{"$not": ["movabs"]}]}, ["40100a", "40100d"]),
                          ({"config": {"valid_addr_range": {"min": "0x1", "max": "0x2"}}, "pattern": [{"$not": ["ret"]}, {"$not": ["ret"]}]}, ["401000"]),
                          ({"pattern": [{"$not": ["movabs"]}]}, ["40100a", "40100d"])):
            got = _j.run_pipeline(doc, lw, all_matches=True, only_addr=True)
            run.count("traces_validated_against_impl")
            if got != want:
                run.failure("genuine_address/CONTINUATION-LINE", f"rule {doc} on a listing with a wrapped instruction: reported {got}, expected {want} (401007 is a byte-continuation line, not an instruction)", {"kind": "sequence", "items": [], "seq": []})
    if prop == "C07":
        # the reported text must be the engine's whole match (group 0) and the reported address its prefix: the
        # forwarding harness of C12 (engine stubbed) — a rule with capture groups must not change what is reported
        from vlib import ch as _ch
        from checks import c12

        hs7 = [h for h in c12.harnesses(tier()) if "/modes/" in h.name or "/first_addr/" in h.name][:4]
        for h in hs7:
            h.key = "reported_text_" + h.key
        _ch.run_harnesses(run, hs7)
    leaves = {"C01": leafharness.c01_leaves, "C02": leafharness.c02_leaves}.get(prop)
    if leaves:
        hs = leaves(tier())
        ch.run_harnesses(run, hs)
        run.coverage_extra["leaf_lemmas"] = {"harnesses": len(hs), "confirmed_over_all_paths": run.counts.get("ch:confirmed", 0)}
    nontrivial = sum(1 for r in results if not r["error"] and any(o["lemma"] == "AEM" for o in r["obl"]))
    cov = {
        "programs": len(tpls),
        "disagreements_checked": run.counts.get("disagreements_replayed", 0),
        "obligations": sum(len(r["obl"]) for r in results),
        "discharged": sum(1 for r in results for o in r["obl"] if o["verdict"] in ("unsat", "ok", "refuted")),
        "rule": "programs = templates of the grammar in checks/templates.py (exhaustive core + VERIF_SEED-selected members); per template the lemmas AEM(2 directions), SA, HX, EA, NE are z3 regex-membership queries over one free string (the whole listing)",
        "functions_encoded": "output of Yaml2Regex.produce_regex() for each template (regenerated on this run), translated by vlib/rx.py",
        "source_hashes": common.file_hashes(FILES),
        "bounds": {"templates": len(tpls), "listing_length": "unbounded", "record_length": "<500 chars", "alphabet": "0x20-0x7e", "solver_timeout_ms": 60000},
        "features": sorted({t["feature"] for t in tpls}),
    }
    return run.finish(cov, ASSUME)


if __name__ == "__main__":
    sys.exit(main(sys.argv[1]))
