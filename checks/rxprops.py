"""C01-C04, C07: compiled-regex language == reference language, for every listing (RX engine)."""
import sys

from vlib import common
from vlib.common import Run, tier, seed
from vlib import lemmas
from checks import templates as T

FILES = [
    "src/jasm/global_definitions.py",
    "src/jasm/jasm_regex/yaml2regex.py",
    "src/jasm/jasm_regex/tree_generators/pattern_node_builder.py",
    "src/jasm/jasm_regex/tree_generators/pattern_node_type_builder/ast_builder.py",
    "src/jasm/jasm_regex/tree_generators/pattern_node_implementations/node_branch_root.py",
    "src/jasm/jasm_regex/tree_generators/pattern_node_implementations/mnemonic_and_operand/mnemonic_and_operand.py",
    "src/jasm/jasm_regex/tree_generators/pattern_node_implementations/time_type_builder.py",
    "src/jasm/jasm_regex/tree_generators/pattern_node_implementations/deref.py",
    "src/jasm/jasm_regex/tree_generators/deref_classes.py",
    "src/jasm/jasm_regex/macro_expander/macro_expander.py",
    "src/jasm/consumer.py",
]

ASSUME = [
    "stream grammar WF (vlib/spec.py): REC = [0-9a-f]+ '::' MNEM ',' (FIELD ',')+ '|', fields over [!-~] minus ',' '|' without '::' (this is what C10 asserts; C08/C10 check it on the parser side)",
    "alphabet: printable ASCII; every instruction record shorter than 500 characters, so the compiler's {0,1000} loops are read as unbounded",
    "pattern shape is enumerated from the template grammar (the front end uses match/case class patterns that cannot be run on symbolic trees); the listing is the symbolic object: one free string of unbounded length",
    "third-party `regex` engine trusted to implement the regex subset as the translator does; translator validated per template on solver-chosen members/non-members (VAL) and on the repo's own rule/listing pairs",
    "reference semantics written from the property text (vlib/spec.py as languages, vlib/oracle.py as interpreter used for replay)",
]

GAMMA = {"C01": T.gamma1, "C02": T.gamma2, "C03": T.gamma3, "C04": T.gamma4, "C07": T.gamma7}


def main(prop):
    run = Run(prop, "translation_validation", "RX")
    tpls = GAMMA[prop](tier(), seed())
    ids = set()
    for t in tpls:
        assert t["id"] not in ids, t["id"]
        ids.add(t["id"])
    results = lemmas.run_templates(run, tpls)
    # CrossHair leaf lemmas: lift the enumerated vocabulary / numbers to symbolic names and bounds
    from vlib import ch
    from checks import leafharness

    if prop in ("C01", "C07"):
        lemmas.repo_pairs_validation(run)
    if prop == "C01":
        # the verdict must not depend on WHERE in a long listing the window lies (the lemmas treat the stream as one
        # string of unbounded length; the consumer is only executed here): windows planted around multiples of 2^k
        from checks import c11

        c11.long_listing_probe(run)
    if prop == "C04":
        # the typing of a $not must not depend on what was compiled before in the same process
        seq_items = [
            ("operand_not_in_or", {"pattern": [{"mov": [{"$or": [{"$not": ["rcx"]}, "rdx"]}, "rbx"]}]}, None),
            ("instruction_not", {"pattern": [{"$not": ["call"]}, "call"]}, None),
            ("repeated_not", {"pattern": ["ret", {"$not": ["call"], "times": 2}]}, None),
            ("operand_not", {"pattern": [{"push": [{"$not": ["rex"]}]}, "ret"]}, None),
        ]
        # ... nor on the full-match flags of an earlier rule that negates the same name
        for mf, of in T.FLAGS:
            seq_items.append((f"not_flags_{T.ftag(mf, of)}", T.doc_of([{"$not": ["mov"]}, "ret"], mf, of), None))
        for of in (False, True):
            seq_items.append((f"operand_not_flags_o{int(of)}", T.doc_of([{"mov": [{"$not": ["rax"]}, "rbx"]}], False, of), None))
        lemmas.sequence_invariance(run, seq_items, "not_typing")
    FLAG_SEQ = {
        "C01": [("item", [{"mov": ["a", "b"]}, "ab"]), ("hexh", [{"mov": ["10h", "a"]}])],
        "C02": [("times", ["push", {"mov": ["a"], "times": {"min": 1, "max": 2}}, {"$or": ["mov", "add"], "times": 2}, "ret"])],
        "C03": [("ops", ["a", {"$or": ["b", {"$and_any_order": ["c", {"b": ["x"]}]}]}, {"mov": [{"$or": ["x", "y"]}, "c"]}])],
        "C07": [("lead", [{"$or": ["mov", {"add": ["a"]}]}, {"call": ["@any"]}])],
    }
    if prop in FLAG_SEQ:
        # one pattern under the four full-match flag settings (plus a second rule): what a rule compiles to must not depend
        # on the flags or names of a rule compiled earlier in the same process
        seq_items = []
        for nm, pat in FLAG_SEQ[prop]:
            for mf, of in T.FLAGS:
                extra = {"macros": [{"name": "@any", "pattern": "[^, |]{1,1000}"}]} if "@any" in str(pat) else None
                seq_items.append((f"{nm}_{T.ftag(mf, of)}", T.doc_of(pat, mf, of, extra), None))
        lemmas.sequence_invariance(run, seq_items, "flags")
    if prop == "C07":
        # the reported text must be the engine's whole match (group 0) and the reported address its prefix: the
        # forwarding harness of C12 (engine stubbed) — a rule with capture groups must not change what is reported
        from vlib import ch as _ch
        from checks import c12

        hs7 = [h for h in c12.harnesses(tier()) if "/modes/" in h.name or "/first_addr/" in h.name][:4]
        for h in hs7:
            h.key = "reported_text_" + h.key
        _ch.run_harnesses(run, hs7)
    leaves = {"C01": leafharness.c01_leaves, "C02": leafharness.c02_leaves}.get(prop)
    if leaves:
        hs = leaves(tier())
        ch.run_harnesses(run, hs)
        run.coverage_extra["leaf_lemmas"] = {"harnesses": len(hs), "confirmed_over_all_paths": run.counts.get("ch:confirmed", 0)}
    nontrivial = sum(1 for r in results if not r["error"] and any(o["lemma"] == "AEM" for o in r["obl"]))
    cov = {
        "programs": len(tpls),
        "disagreements_checked": run.counts.get("disagreements_replayed", 0),
        "obligations": sum(len(r["obl"]) for r in results),
        "discharged": sum(1 for r in results for o in r["obl"] if o["verdict"] in ("unsat", "ok", "refuted")),
        "rule": "programs = templates of the grammar in checks/templates.py (exhaustive core + VERIF_SEED-selected members); per template the lemmas AEM(2 directions), SA, HX, EA, NE are z3 regex-membership queries over one free string (the whole listing)",
        "functions_encoded": "output of Yaml2Regex.produce_regex() for each template (regenerated on this run), translated by vlib/rx.py",
        "source_hashes": common.file_hashes(FILES),
        "bounds": {"templates": len(tpls), "listing_length": "unbounded", "record_length": "<500 chars", "alphabet": "0x20-0x7e", "solver_timeout_ms": 60000},
        "features": sorted({t["feature"] for t in tpls}),
    }
    return run.finish(cov, ASSUME)


if __name__ == "__main__":
    sys.exit(main(sys.argv[1]))
