"""C18: valid_addr_range tags exactly the direct calls/jumps that land in the range.
CrossHair on the real HexType / ValidAddrRange.is_in_range / ValidAddrObserver.observe_instruction /
MasterOfPuppets.prepare_observers / InstructionObserverConsumer._process_instruction.
Hexadecimal numerals are ABSTRACT VALUES: HexStr(prefixed: bool, val: int>=0) implements only the str operations the
code uses (startswith('0x'), [2:], '*' in) and raises on any other; the module-level name `int` of
jasm.global_definitions is shadowed by the contract stub int(HexStr unprefixed, 16) = val.  The integers are
unbounded, so the comparisons are decided for ALL addresses, digit counts and 0x spellings at once.
The stub's contract itself (int(s,16) = value of the numeral) is validated by a bounded string-level harness."""
import sys

from vlib import ch, common
from vlib.common import Run, tier

PRE = '''
import builtins
import jasm.global_definitions as gd
import jasm.match as _m
from jasm.global_definitions import ValidAddrRange, Instruction, JASMConfig, MatchConfig
from jasm.match import ValidAddrObserver, MasterOfPuppets
from jasm.consumer import CompleteConsumer
from jasm.matched_observers import MatchedObserver
from jasm.global_definitions import MatchingSearchMode

class HexStr:
    """abstract hexadecimal numeral: optional 0x prefix + value"""
    def __init__(self, prefixed, val):
        self.prefixed = prefixed
        self.val = val
    def startswith(self, p):
        if p == "0x":
            return self.prefixed
        raise NotImplementedError(p)
    def __getitem__(self, k):
        if isinstance(k, slice) and k.start == 2 and k.stop is None and k.step is None and self.prefixed:
            return HexStr(False, self.val)
        raise NotImplementedError(k)
    def __contains__(self, x):
        if x == "*":
            return False
        raise NotImplementedError(x)
    def __eq__(self, other):
        return isinstance(other, HexStr) and other.prefixed == self.prefixed and other.val == self.val
    def __hash__(self):
        return 0

def _int(x, base=10):
    if isinstance(x, HexStr):
        if base != 16 or x.prefixed:
            raise ValueError("stub: int() of a 0x-prefixed numeral with base 16 is accepted by Python, but the code strips it first")
        return x.val
    return builtins.int(x, base)
gd.int = _int

JUMPS_JASM_ALSO_TAGS = ("callq", "jne", "je", "jg", "jge", "jl", "jle", "jz", "jnz")
'''


def harnesses(t):
    T = 60 if t == "quick" else 240
    hs = []
    hs.append(ch.H("c18/in_range", '''def in_range(t: int, tp: bool, lo: int, lop: bool, hi: int, hip: bool) -> bool:
    """
    pre: t >= 0 and lo >= 0 and hi >= 0
    post: _
    """
    r = ValidAddrRange(min_addr=HexStr(lop, lo), max_addr=HexStr(hip, hi))
    return r.is_in_range(HexStr(tp, t)) == (lo <= t <= hi)
''', timeout=T, prelude=PRE, key="in_range", note="unbounded naturals, all 8 combinations of 0x spellings"))
    for ml in ([3, 4] if t == "quick" else [1, 2, 3, 4, 5]):
        hs.append(ch.H(f"c18/observer/{ml}", f'''def observer_{ml}(t: int, tp: bool, lo: int, hi: int, mn: str, second: str, nops: int) -> bool:
    """
    pre: t >= 0 and lo >= 0 and hi >= 0 and len(mn) == {ml} and len(second) == 2 and 1 <= nops <= 2
    post: _
    """
    obs = ValidAddrObserver(ValidAddrRange(min_addr=HexStr(False, lo), max_addr=HexStr(True, hi)))
    target = HexStr(tp, t)
    ops = [target, second][:nops]
    inst = Instruction(addr="10", mnemonic=mn, operands=list(ops))
    out = obs.observe_instruction(inst)
    if out is None or out.addr != "10" or out.mnemonic != mn:
        return False
    if mn in ("call", "jmp"):
        if lo <= t <= hi:
            return out.operands == ["valid_addr"]
        return out.operands == ops
    if mn in JUMPS_JASM_ALSO_TAGS:
        return True  # conditional jumps / callq: the property is silent, either behaviour is accepted
    return out.operands == ops
''', timeout=T, prelude=PRE, key="observer_direct", note="direct branch with symbolic target; mnemonic symbolic"))
    hs.append(ch.H("c18/observer_two_ranges", '''def observer_two_ranges(t: int, tp: bool, lo1: int, hi1: int, lo2: int, hi2: int, jmp: bool) -> bool:
    """
    pre: t >= 0 and lo1 >= 0 and hi1 >= 0 and lo2 >= 0 and hi2 >= 0
    post: _
    """
    # two observers with DIFFERENT ranges look at the same target one after the other (two rules in one process):
    # each verdict must come from its own range
    mn = "jmp" if jmp else "call"
    ok = True
    for lo, hi in ((lo1, hi1), (lo2, hi2), (lo1, hi1)):
        obs = ValidAddrObserver(ValidAddrRange(min_addr=HexStr(False, lo), max_addr=HexStr(True, hi)))
        out = obs.observe_instruction(Instruction(addr="10", mnemonic=mn, operands=[HexStr(tp, t)]))
        ok = ok and out is not None and (out.operands == ["valid_addr"]) == (lo <= t <= hi)
    return ok
''', timeout=T, prelude=PRE, key="observer_two_ranges", note="same target under two different ranges in one process"))
    hs.append(ch.H("c18/observer_indirect", '''def observer_indirect(lo: int, hi: int, which: int, x: str) -> bool:
    """
    pre: lo >= 0 and hi >= 0 and 0 <= which <= 2 and len(x) == 2
    post: _
    """
    obs = ValidAddrObserver(ValidAddrRange(min_addr=HexStr(False, lo), max_addr=HexStr(False, hi)))
    mn = ("call", "jmp", "mov")[which]
    for ops in (["*" + x], ["*" + x, "%r"], []):
        inst = Instruction(addr="10", mnemonic=mn, operands=list(ops))
        out = obs.observe_instruction(inst)
        if out is None or out.addr != "10" or out.mnemonic != mn or out.operands != ops:
            return False
    return True
''', timeout=T, prelude=PRE, key="observer_indirect", note="indirect branches (*...) and operand-less instructions are never tagged"))
    hs.append(ch.H("c18/chain", '''def chain(configured: bool, lo: int, hi: int, k1: int, k2: int, k3: int, t1: int, t2: int, t3: int) -> bool:
    """
    pre: lo >= 0 and hi >= 0 and t1 >= 0 and t2 >= 0 and t3 >= 0
    pre: 0 <= k1 <= 4 and 0 <= k2 <= 4 and 0 <= k3 <= 4
    post: _
    """
    cfg = JASMConfig.get_instance()
    cfg._set_info("valid_addr_range", ValidAddrRange(min_addr=HexStr(False, lo), max_addr=HexStr(True, hi)) if configured else None)
    mop = MasterOfPuppets.__new__(MasterOfPuppets)
    mop.global_config = cfg
    observers = mop.prepare_observers()
    c = CompleteConsumer("r", MatchedObserver(), MatchingSearchMode.first_find, False)
    for o in observers:
        c.add_observer(o)
    def mk(k, t, addr):
        if k == 0:
            return Instruction(addr, "empty", [])
        if k == 1:
            return Instruction(addr, "call", [HexStr(False, t)])
        if k == 2:
            return Instruction(addr, "jmp", [HexStr(True, t), "x"])
        if k == 3:
            return Instruction(addr, "call", ["*%rax"])
        return Instruction(addr, "mov", ["%rax", "%rbx"])
    ins = [mk(k1, t1, "1"), mk(k2, t2, "2"), mk(k3, t3, "3")]
    got = [c._process_instruction(i) for i in ins]
    ok = True
    for i, g, k, t in zip(ins, got, (k1, k2, k3), (t1, t2, t3)):
        if k == 0:
            ok = ok and g is None          # byte-continuation pseudo instruction dropped
            continue
        if g is None or g.addr != i.addr or g.mnemonic != i.mnemonic:
            return False
        tagged = configured and k in (1, 2) and lo <= t <= hi
        ok = ok and (g.operands == (["valid_addr"] if tagged else i.operands))
    return ok
''', timeout=T, prelude=PRE, key="chain", note="prepare_observers installs the observer iff configured; the chain keeps number, order, addresses", probe=["chain(True, 0, 64, 1, 2, 4, 16, 80, 0)", "chain(False, 0, 0, 1, 2, 3, 16, 16, 0)", "chain(True, 32, 48, 1, 1, 0, 40, 16, 0)"]))
    hs.append(ch.H("c18/chain_history", '''def chain_history(conf0: bool, lo0: int, hi0: int, configured: bool, lo: int, hi: int, k: int, t: int) -> bool:
    """
    pre: lo0 >= 0 and hi0 >= 0 and lo >= 0 and hi >= 0 and t >= 0
    pre: 1 <= k <= 4
    post: _
    """
    cfg = JASMConfig.get_instance()
    # an EARLIER operation of the same process prepared its observers (with or without a range of its own) ...
    cfg._set_info("valid_addr_range", ValidAddrRange(min_addr=HexStr(False, lo0), max_addr=HexStr(True, hi0)) if conf0 else None)
    mop0 = MasterOfPuppets.__new__(MasterOfPuppets)
    mop0.global_config = cfg
    obs0 = mop0.prepare_observers()
    c0 = CompleteConsumer("r", MatchedObserver(), MatchingSearchMode.first_find, False)
    for o in obs0:
        c0.add_observer(o)
    c0._process_instruction(Instruction("0", "call", [HexStr(False, t)]))
    # ... and THIS operation must tag by its own configuration only
    cfg._set_info("valid_addr_range", ValidAddrRange(min_addr=HexStr(False, lo), max_addr=HexStr(True, hi)) if configured else None)
    mop = MasterOfPuppets.__new__(MasterOfPuppets)
    mop.global_config = cfg
    c = CompleteConsumer("r", MatchedObserver(), MatchingSearchMode.first_find, False)
    for o in mop.prepare_observers():
        c.add_observer(o)
    if k == 1:
        i = Instruction("1", "call", [HexStr(False, t)])
    elif k == 2:
        i = Instruction("1", "jmp", [HexStr(True, t), "x"])
    elif k == 3:
        i = Instruction("1", "call", ["*%rax"])
    else:
        i = Instruction("1", "mov", ["%rax", "%rbx"])
    want = list(i.operands)
    g = c._process_instruction(i)
    if g is None or g.addr != "1" or g.mnemonic != i.mnemonic:
        return False
    tagged = configured and k in (1, 2) and lo <= t <= hi
    return g.operands == (["valid_addr"] if tagged else want)
''', timeout=T, prelude=PRE, key="chain_history", note="the observers prepared for an earlier operation (with its own range) do not influence this operation's tagging", probe=["chain_history(True, 0, 64, False, 0, 0, 1, 16)", "chain_history(True, 0, 64, True, 100, 200, 2, 16)", "chain_history(False, 0, 0, True, 0, 64, 1, 16)"]))
    # config loading: the range object is rebuilt or reset on every load
    hs.append(ch.H("c18/load", '''def load(present: bool, lo: int, hi: int, stale: bool, max_first: bool) -> bool:
    """
    pre: lo >= 0 and hi >= 0
    post: _
    """
    cfg = JASMConfig.get_instance()
    cfg._set_info("valid_addr_range", ValidAddrRange(min_addr=HexStr(False, 1), max_addr=HexStr(False, 2)) if stale else None)
    d = {"valid_addr_range": {"min": HexStr(False, lo), "max": HexStr(True, hi)}} if present else {}
    if present and max_first:
        # the two keys of the mapping in the other order (YAML mappings keep the order they were written in)
        d = {"valid_addr_range": {"max": HexStr(True, hi), "min": HexStr(False, lo)}}
    cfg._load_valid_addr_range(d)
    r = cfg.get_info("valid_addr_range")
    if not present:
        return r is None
    return r is not None and r.min.hex == lo and r.max.hex == hi
''', timeout=T, prelude=PRE, key="load_range", note="_load_valid_addr_range from an arbitrary previous state"))
    return hs


PRE_STR = '''
from jasm.global_definitions import ValidAddrRange, HexType
HEXD = "0123456789abcdef"
def _hexs(s: str) -> bool:
    return all(c in HEXD for c in s)
'''


def contract_validation(t):
    """bug-hunting: the real int(s,16) path on short concrete-alphabet strings (not confirmed is acceptable here)"""
    T = 30 if t == "quick" else 120
    return [ch.H("c18/hextype_strings", '''def hextype_strings(a: str, b: str, pa: bool, pb: bool) -> bool:
    """
    pre: 1 <= len(a) <= 2 and 1 <= len(b) <= 2 and _hexs(a) and _hexs(b)
    post: _
    """
    x = HexType(("0x" if pa else "") + a)
    y = HexType(("0x" if pb else "") + b)
    return (x.hex <= y.hex) == (int(a, 16) <= int(b, 16))
''', timeout=T, prelude=PRE_STR, key="hextype_strings", note="validates the stub's contract on real strings (<= 2 hex digits)")]


def end_to_end_routes(run):
    """Concrete end-to-end validation through MasterOfPuppets: the tagging depends on the option alone - not on how (or whether)
    the rule spells the name valid_addr (literally, through a rule-file macro, through an extra macro file, in an alternative),
    and the bounds behave as numbers (target equal to either bound, 0, one below / above)."""
    from vlib import jasmapi

    L = "".join(f"    {a}:\t{b:<21}\t{t}\n" for a, b, t in [
        ("1000", "e8 fb 0f 00 00", "call   2000 <in_range>"), ("1005", "e8 00 20 00 00", "call   3005 <above>"), ("100a", "eb 00", "jmp    0 <zero>"),
        ("100c", "e9 ff 0f 00 00", "jmp    0x2fff"), ("1011", "ff d0", "call   *%rax"), ("1013", "68 00 20 00 00", "push   $0x2000"),
        ("1018", "e8 00 00 00 00", "call   1fff <below>"), ("101d", "c3", "ret")])
    cfg = {"valid_addr_range": {"min": "0x2000", "max": "2fff"}}
    lib = [{"macros": [{"name": "@local_target", "pattern": "valid_addr"}]}]
    want_stream = "1000::call,valid_addr,|1005::call,3005,|100a::jmp,0,|100c::jmp,valid_addr,|1011::call,*%rax,|1013::push,0x2000,|1018::call,1fff,|101d::ret,,|"
    want_zero = want_stream.replace("1000::call,valid_addr,", "1000::call,2000,").replace("100c::jmp,valid_addr,", "100c::jmp,0x2fff,").replace("100a::jmp,0,", "100a::jmp,valid_addr,").replace("1018::call,1fff,", "1018::call,valid_addr,")
    cases = [
        ("literal name", {"config": cfg, "pattern": [{"$or": [{"call": ["valid_addr"]}, {"jmp": ["valid_addr"]}]}]}, None, ["1000", "100c"]),
        ("rule-file macro", {"config": cfg, "macros": lib[0]["macros"], "pattern": [{"$or": [{"call": ["@local_target"]}, {"jmp": ["@local_target"]}]}]}, None, ["1000", "100c"]),
        ("extra macro file", {"config": cfg, "pattern": [{"$or": [{"call": ["@local_target"]}, {"jmp": ["@local_target"]}]}]}, lib, ["1000", "100c"]),
        ("name not used at all", {"config": cfg, "pattern": [{"call": ["2000"]}]}, None, []),
        ("option absent", {"pattern": [{"call": ["2000"]}]}, None, ["1000"]),
    ]
    for nm, doc, macros, want in cases:
        got = jasmapi.run_pipeline(doc, L, macros, all_matches=True, only_addr=True)
        stream = jasmapi.run_pipeline(doc, L, macros, ret="stream")
        run.count("traces_validated_against_impl")
        ws = want_stream if "config" in doc else want_stream.replace("valid_addr", "2000", 1).replace("valid_addr", "0x2fff", 1)
        if got != want or stream != ws:
            run.failure(f"end_to_end/{nm.replace(' ', '_')}", f"rule variant '{nm}': matched {got} (expected {want}); stream {stream!r} (expected {ws!r})", {"kind": "c18_e2e", "variant": nm})
    # the mapping written max-first; one matcher object asked twice (also for the stream)
    rdoc = {"config": {"valid_addr_range": {"max": "2fff", "min": "0x2000"}}, "pattern": [{"$or": [{"call": ["valid_addr"]}, {"jmp": ["valid_addr"]}]}]}
    got = jasmapi.run_pipeline(rdoc, L, None, all_matches=True, only_addr=True)
    stream = jasmapi.run_pipeline(rdoc, L, None, ret="stream")
    run.count("traces_validated_against_impl")
    if got != ["1000", "100c"] or stream != want_stream:
        run.failure("end_to_end/max_written_first", f"valid_addr_range written as {{max: 2fff, min: 0x2000}}: matched {got} (expected ['1000', '100c']); stream {stream!r}", {"kind": "c18_e2e", "variant": "max_written_first"})
    twice = jasmapi.constructed_first_results([cases[0][1]], L)
    twice_s = jasmapi.constructed_first_results([cases[0][1]], L, ret="stream")
    run.count("traces_validated_against_impl")
    if twice != [["1000", "100c"], ["1000", "100c"]] or twice_s != [want_stream, want_stream]:
        run.failure("end_to_end/asked_twice", f"one matcher object with a range, run twice: {twice} (expected ['1000', '100c'] both times); streams equal the expected one: {[x == want_stream for x in twice_s]}", {"kind": "c18_e2e", "variant": "asked_twice"})
    # bounds as numbers: range 0x0..1fff contains target 0 and 1fff (both bounds), not 2000
    doc = {"config": {"valid_addr_range": {"min": "0x0", "max": "1fff"}}, "pattern": [{"$or": [{"call": ["valid_addr"]}, {"jmp": ["valid_addr"]}]}]}
    stream = jasmapi.run_pipeline(doc, L, None, ret="stream")
    run.count("traces_validated_against_impl")
    if stream != want_zero:
        run.failure("end_to_end/bounds", f"range 0x0..1fff: stream {stream!r} (expected {want_zero!r})", {"kind": "c18_e2e", "variant": "bounds"})


def main():
    run = Run("C18", "model_checking", "CH")
    hs = harnesses(tier())
    ch.run_harnesses(run, hs)
    end_to_end_routes(run)
    cv = contract_validation(tier())
    for h in cv:
        h.attempts = 1
    before = len(run.inconclusive)
    ch.run_harnesses(run, cv, twins=False)
    # the contract-validation harness is bug hunting: 'not confirmed' there is recorded but is not an inconclusive claim
    run.coverage_extra["stub_contract_validation"] = "confirmed" if len(run.inconclusive) == before else "no counterexample within budget (bug-hunting only)"
    run.inconclusive = run.inconclusive[:before]
    cov = {
        "states": len(hs),
        "transitions": run.counts.get("harness_runs", 0),
        "traces_validated_against_impl": run.counts.get("twin_refuted", 0),
        "explanation": "states = CrossHair conditions over unbounded integers (range bounds, targets), 0x-spelling bits, symbolic mnemonics and instruction kinds",
        "confirmed_over_all_paths": run.counts.get("ch:confirmed", 0),
        "functions_encoded": ["HexType.__init__", "ValidAddrRange.__init__/is_in_range", "ValidAddrObserver.observe_instruction", "MasterOfPuppets.prepare_observers", "InstructionObserverConsumer._process_instruction", "JASMConfig._load_valid_addr_range", "RemoveEmptyInstructions.observe_instruction"],
        "stubs": ["HexStr abstract numeral (startswith('0x'), [2:], '*' in)", "jasm.global_definitions.int := contract stub (value of an unprefixed numeral)"],
        "bounds": {"integers": "unbounded", "mnemonic_length": "3-4 (quick) / 1-5 (thorough)", "instructions_in_chain": 3},
        "source_hashes": common.file_hashes(["src/jasm/match.py", "src/jasm/global_definitions.py", "src/jasm/consumer.py"]),
    }
    return run.finish(cov, ["direct branch targets are hexadecimal numerals (C08 grammar: TARGET); int(s,16) returns the numeral's value irrespective of digit count and case (validated on <=2-digit strings)", "conditional jumps and callq, which JASM also tags, are outside the property's wording: either behaviour accepted"])


def replay(rec):
    if rec.get("kind") == "c18_e2e":
        print("end-to-end route probe: re-run ./check C18;", rec.get("variant"))
        return 1
    return ch.replay_record(rec)


if __name__ == "__main__":
    sys.exit(main())
