"""C11: all-matches mode is a complete leftmost non-overlapping scan.
What JASM's own code contributes, and how it is decided:
  (i)  the compiled regex cannot match the empty string and every match is record aligned: RX lemmas NE, SA, HX, EA (z3,
       every listing) on every leading-operator template and on multi-instruction templates with overlapping candidates;
  (ii) every hit of finditer is forwarded in order / the hit of search in first-match mode, with exactly (rule, stream)
       handed to the engine and no extra keyword: CrossHair on the real consumer with a stubbed engine (shared with C12).
The scan itself (regex.finditer: leftmost, non-overlapping, complete) is the third-party engine's contract and is TRUSTED;
it is validated, not decided: z3 produces listings with adjacent / overlapping occurrences and the real pipeline's result
is compared with the reference scan of vlib/oracle.py."""
import sys

import z3

from vlib import ch, common, jasmapi, lemmas, rx
from vlib.common import Run, seed, tier
from vlib.oracle import Oracle
from vlib.rx import comp, inter
from vlib.spec import Spec
from checks import c12, templates as T
from checks.rxprops import ASSUME


def scan_validation(run, tpls):
    """z3 picks listings with a match at record 0 AND at record 1 (overlapping candidates) or two adjacent matches;
    the real CompleteConsumer (all-matches) is compared with the reference scan."""
    U, M = lemmas.worlds()
    q = rx.Q(30000)
    for t in tpls:
        doc = t["doc"]
        pattern = doc["pattern"]
        mf, of = lemmas.flags_of(doc)
        orc = Oracle(mf, of)
        try:
            regex_text = jasmapi.compile_rule(doc, t.get("macros"))
            ast, ng = rx.parse(regex_text)
            if ng:
                continue
            tr = rx.Tr(U)
            sp = Spec(U, mf, of)
            if rx.split_leading_lookbehind(ast)[0]:
                raise rx.Unsupported("leading look-behind: scan generation skipped (the lemmas decide)")
            L0 = tr.lang(ast, U.ANY, (0,), (0,))
            REC, WF = sp.REC((0,)), sp.WF((0,))
            queries = {
                "overlap": inter(WF, L0, z3.Concat(REC, L0)),
                "adjacent": inter(WF, tr.lang(ast, L0, (0,), (0,))),
                "gap": inter(WF, z3.Concat(REC, REC, L0), z3.Concat(REC, comp(L0))),
            }
        except rx.Unsupported:
            continue
        for name, r in queries.items():
            v, w = q.check(r)
            run.count(f"SCANGEN:{v}")
            if v != "sat":
                continue
            stream = U.decode(w)[0]
            L = jasmapi.decode_stream(stream)
            _, hits, real_stream = jasmapi.run_consumer(regex_text, L, all_matches=True)
            _, first, _ = jasmapi.run_consumer(regex_text, L, all_matches=False)
            # locate hits
            pos, spans, ok = 0, [], real_stream == stream
            for h in hits:
                i = stream.find(h, pos)
                if i < 0:
                    ok = False
                    break
                spans.append((i, i + len(h)))
                pos = i + len(h)
            problems = []
            if not ok:
                problems.append("hit text not found in order in the stream")
            else:
                idx = [(lemmas.record_index(stream, a), lemmas.record_index(stream, b)) for a, b in spans]
                prev_end = 0
                for (a, b) in idx:
                    if a is None or b is None:
                        problems.append("hit not record aligned")
                        break
                    if b not in orc.ends(pattern, L, a):
                        problems.append(f"hit [{a},{b}) is not a genuine match")
                    for k in range(prev_end, a):
                        if orc.ends(pattern, L, k):
                            problems.append(f"instruction {k} starts a match but lies in a gap")
                    prev_end = b
                for k in range(prev_end, len(L)):
                    if orc.ends(pattern, L, k):
                        problems.append(f"instruction {k} starts a match after the last hit")
                if first != hits[:1]:
                    problems.append("first-match mode differs from the first element of the all-matches list")
            run.count("traces_validated_against_impl")
            if len(run.samples) < 6:
                run.sample({"template": t["id"], "kind": name, "stream": stream, "hits": hits})
            if problems:
                run.failure(f"{t['feature']}/SCAN/{name}", f"template={t['id']} stream={stream!r} hits={hits}: {problems[:3]}", {"kind": "scan", "template": t, "stream": stream, "hits": hits, "problems": problems})
    run.solver_s += q.wall
    run.count("queries", q.n)


def long_listing_probe(run):
    """Validation on LONG listings (the symbolic checks above use the whole stream as one string of unbounded length, but
    the consumer is only executed on short ones): occurrences are planted around powers of two of the record count and
    the real all-matches / first-match results are compared with the planted positions."""
    n = 3 * 8192 + 50
    rule = {"pattern": ["push", "call"]}
    regex_text = jasmapi.compile_rule(rule)
    for planted in ([8191, 9000, 16383, 20000], [4095, 4097, 8190, 8193, 16384], [0, 1023, 2047, 24620], [255, 511, 767, 1279, 65 * 256 - 1], [127, 383, 99 * 128 - 1]):
        L = [(format(0x400000 + i, "x"), "mov", ["%rax", "%rbx"]) for i in range(n)]
        for p in planted:
            L[p] = (L[p][0], "push", ["%rbp"])
            L[p + 1] = (L[p + 1][0], "call", ["401000"])
        want = [format(0x400000 + p, "x") for p in planted]
        _, hits, _ = jasmapi.run_consumer(regex_text, L, all_matches=True, only_addr=True)
        _, first, _ = jasmapi.run_consumer(regex_text, L, all_matches=False, only_addr=True)
        run.count("traces_validated_against_impl")
        if hits != want or first != want[:1]:
            run.failure("scan/LONG/-", f"listing of {n} instructions with [push, call] planted at records {planted}: all-matches {hits}, first-match {first}, expected {want}", {"kind": "scan_long", "planted": planted, "n": n})
    # two overlapping-candidate rule on a long run
    rule2 = {"pattern": ["call", "call"]}
    r2 = jasmapi.compile_rule(rule2)
    L = [(format(0x400000 + i, "x"), "mov", ["%rax", "%rbx"]) for i in range(n)]
    for p in (8191, 8192, 8193, 8194):
        L[p] = (L[p][0], "call", ["401000"])
    _, hits, _ = jasmapi.run_consumer(r2, L, all_matches=True, only_addr=True)
    run.count("traces_validated_against_impl")
    want = [format(0x400000 + 8191, "x"), format(0x400000 + 8193, "x")]
    if hits != want:
        run.failure("scan/LONG/-", f"[call, call] on calls at records 8191..8194 of a long listing: {hits}, expected {want}", {"kind": "scan_long", "planted": [8191, 8192, 8193, 8194], "n": n})


def times_long_probe(run, key="times/LONG-LISTING"):
    """C02 on LONG listings, through the whole pipeline (rule file -> MasterOfPuppets): a run matched by a repeated item /
    group and straddling a power-of-two record border must be found exactly where the n-copies rule finds it."""
    n = 2 * 8192 + 300
    rules = {
        "item_times_10": ["mov", {"call": {"times": 10}}, "mov"],
        "item_range_10_12": ["mov", {"call": {"times": {"min": 10, "max": 12}}}, "mov"],
        "sibling_times_10": ["mov", {"call": ["4010"], "times": 10}, "mov"],
        "or_times_10": ["mov", {"$or": ["call", "jmp"], "times": 10}, "mov"],
        "and_times_5": ["mov", {"$and": ["call", "call"], "times": 5}, "mov"],
        "copies_10": ["mov"] + ["call"] * 10 + ["mov"],
    }
    for starts in ([4090], [8182, 16380], [2044, 12286]):
        instrs = [(format(0x400000 + i, "x"), "mov", ["%rax", "%rbx"]) for i in range(n)]
        for p in starts:
            for k in range(10):
                instrs[p + k] = (instrs[p + k][0], "call", ["401000"])
        text = jasmapi.render_listing(instrs)
        want = [format(0x400000 + p - 1, "x") for p in starts]
        for nm, pat in rules.items():
            got_all = jasmapi.run_pipeline({"pattern": pat}, text, all_matches=True, only_addr=True)
            got_first = jasmapi.run_pipeline({"pattern": pat}, text, all_matches=False, only_addr=True)
            run.count("traces_validated_against_impl")
            if got_all != want or got_first != want[:1]:
                run.failure(key, f"listing of {n} instructions, runs of 10 calls starting at records {starts}: rule {nm} reports all={got_all} first={got_first}, expected {want}", {"kind": "scan_long", "planted": starts, "n": n})


def long_match_probe(run, key="scan/LONGMATCH/-"):
    """ONE occurrence that is itself long (a 300-instruction sled matched by a {250,300} repetition) and straddles a
    power-of-two record border: first-match and all-matches must report the same, whole, occurrence (concrete validation)."""
    n = 2 * 8192 + 700
    rule = {"pattern": [{"nop": {"times": {"min": 250, "max": 300}}}]}
    regex_text = jasmapi.compile_rule(rule)
    for starts in ([3900], [8100, 16300], [4000, 12200]):
        L = [(format(0x400000 + i, "x"), "mov", ["%rax", "%rbx"]) for i in range(n)]
        for p in starts:
            for k in range(300):
                L[p + k] = (L[p + k][0], "nop", [])
        want = [jasmapi.encode_stream(L[p:p + 300]) for p in starts]
        _, hits, _ = jasmapi.run_consumer(regex_text, L, all_matches=True, only_addr=False)
        found1, first, _ = jasmapi.run_consumer(regex_text, L, all_matches=False, only_addr=False)
        _, addrs, _ = jasmapi.run_consumer(regex_text, L, all_matches=True, only_addr=True)
        run.count("traces_validated_against_impl")
        if hits != want or first != want[:1] or not found1 or addrs != [format(0x400000 + p, "x") for p in starts]:
            run.failure(key, f"300-instruction sleds at records {starts} of a {n}-instruction listing, rule nop{{250,300}}: all-matches gives {len(hits)} hit(s) of {[h.count('|') for h in hits]} records, first-match {[h.count('|') for h in first]} (found={found1}), addresses {addrs}; expected one whole sled per start", {"kind": "scan_long", "planted": starts, "n": n})


def scan_variants_probe(run, key="scan/VARIANTS"):
    """Concrete scans (real engine): a rule with register captures in all-matches mode, the same scan with the library logger at
    DEBUG level, and a dense scan over a stream larger than 1 MiB (a finding at every instruction)."""
    import logging

    L = [("1000", "push", ["%rbp"]), ("1001", "xor", ["%eax", "%eax"]), ("1003", "xor", ["%ebx", "%ebx"]), ("1005", "mov", ["%rsp", "%rbp"]), ("1008", "xor", ["%ecx", "%eax"]), ("100a", "xor", ["%edx", "%edx"]), ("100c", "ret", [])]
    rx_cap = jasmapi.compile_rule({"pattern": [{"xor": ["&genreg.32", "&genreg.32"]}]})
    want = ["1001", "1003", "100a"]
    lg = logging.getLogger("jasm")
    names = [n for n in logging.root.manager.loggerDict if n.startswith("jasm")] + ["jasm"]
    for level in (None, logging.DEBUG):
        saved = {n: logging.getLogger(n).level for n in names}
        saved_disable = logging.root.manager.disable
        try:
            if level is not None:
                logging.disable(logging.NOTSET)
                for n in names:
                    logging.getLogger(n).setLevel(level)
            _, hits, _ = jasmapi.run_consumer(rx_cap, L, all_matches=True, only_addr=True)
            _, full, _ = jasmapi.run_consumer(rx_cap, L, all_matches=True, only_addr=False)
            _, first, _ = jasmapi.run_consumer(rx_cap, L, all_matches=False, only_addr=True)
        finally:
            logging.disable(saved_disable)
            for n, v in saved.items():
                logging.getLogger(n).setLevel(v)
        run.count("traces_validated_against_impl")
        if hits != want or first != want[:1] or [h.split("::")[0] for h in full] != want:
            run.failure(f"{key}/captures" + ("_debug_level" if level else ""), f"rule xor &genreg.32,&genreg.32 (log level {'DEBUG' if level else 'default'}): all-matches {hits}, full texts start {[h[:12] for h in full]}, first-match {first}; expected {want}", {"kind": "scan_long", "planted": want, "n": len(L)})
    n = 45000
    Ld = [(format(0x400000 + 9 * i, "x"), "movq", ["%rsi", "[%rsp+0x1000]"]) for i in range(n)]
    rd = jasmapi.compile_rule({"pattern": [{"movq": ["rsi"]}]})
    _, hits, stream = jasmapi.run_consumer(rd, Ld, all_matches=True, only_addr=True)
    run.count("traces_validated_against_impl")
    if hits != [a for a, _, _ in Ld]:
        extra = [h for h in hits if h not in {a for a, _, _ in Ld}][:3]
        run.failure(f"{key}/dense", f"dense scan of {n} instructions ({len(stream)} characters): {len(hits)} findings, expected {n}; findings that are no address of the listing: {extra}", {"kind": "scan_long", "planted": [], "n": n})


def nested_long_probe(run, key="scan/NESTED-LONG"):
    """nested operators whose occurrence straddles a power-of-two record border of a long listing: found in first-match and
    all-matches mode exactly like the flat spelling of the same sequence"""
    n = 2 * 16384 + 100
    rules = {"any_order_of_and": {"pattern": [{"$and_any_order": ["xchg", {"$and": ["cpuid", "rdtsc"]}]}]}, "or_of_and": {"pattern": [{"$or": [{"$and": ["xchg", "cpuid", "rdtsc"]}, "ud2"]}]}, "flat": {"pattern": ["xchg", "cpuid", "rdtsc"]}}
    for starts in ([16382], [8190, 32766], [16383, 32767]):
        L = [(format(0x400000 + 2 * i, "x"), "nop", []) for i in range(n)]
        for p in starts:
            for k, m in enumerate(("xchg", "cpuid", "rdtsc")):
                L[p + k] = (L[p + k][0], m, ["%ax", "%ax"] if m == "xchg" else [])
        want = [format(0x400000 + 2 * p, "x") for p in starts]
        for nm, doc in rules.items():
            rgx = jasmapi.compile_rule(doc)
            _, hits, _ = jasmapi.run_consumer(rgx, L, all_matches=True, only_addr=True)
            f1, first, _ = jasmapi.run_consumer(rgx, L, all_matches=False, only_addr=True)
            run.count("traces_validated_against_impl")
            if hits != want or first != want[:1] or not f1:
                run.failure(key, f"rule {nm}: occurrences at records {starts} of a {n}-instruction listing: all-matches {hits}, first-match {first}; expected {want}", {"kind": "scan_long", "planted": starts, "n": n})


def main():
    run = Run("C11", "model_checking", "RX+CH")
    # AEM at offset 0 is what makes "the first reported match is the leftmost one" a statement about the very first
    # instruction of the listing as well (a rule that can only match after a separator would lose it)
    L = ("AEM", "NE", "SA", "HX", "EA", "VAL")
    tpls = []
    for t in T.gamma7(tier(), seed()):
        t = dict(t)
        t["lemmas"] = L
        if t["feature"] in ("lead_opt_item",):
            continue  # can match the empty sequence followed by 'call': still non-empty overall, keep others only
        tpls.append(t)
    tpls += T.gamma11(tier(), seed())
    lemmas.run_templates(run, tpls)
    scan_validation(run, T.gamma11(tier(), seed()))
    long_match_probe(run)
    scan_variants_probe(run)
    nested_long_probe(run)
    long_listing_probe(run)
    hs = [h for h in c12.harnesses(tier()) if "/modes/" in h.name]
    for h in hs:
        h.key = "forwarding"
    ch.run_harnesses(run, hs)
    cov = {
        "states": len(tpls) + len(hs),
        "transitions": run.counts.get("queries", 0) + run.counts.get("harness_runs", 0),
        "traces_validated_against_impl": run.counts.get("traces_validated_against_impl", 0),
        "explanation": "states = templates (z3 lemmas NE/SA/HX/EA, every listing) + CrossHair conditions (forwarding through the real consumer with a stubbed engine); traces = z3-generated listings with overlapping/adjacent/gapped occurrences run through the real CompleteConsumer and compared with the reference scan",
        "source_hashes": common.file_hashes(["src/jasm/consumer.py", "src/jasm/matched_observers.py"]),
    }
    return run.finish(cov, ASSUME + ["regex.finditer / regex.search are a leftmost, non-overlapping, complete scan: third-party C code, TRUSTED (validated on solver-generated listings only)"])


def replay(rec):
    if rec.get("kind") == "ch":
        return ch.replay_record(rec)
    if rec.get("kind") == "scan_long":
        print("re-run ./check C11 (long listing probe)", rec)
        return 1
    if rec.get("kind") == "scan":
        t = rec["template"]
        regex_text = jasmapi.compile_rule(t["doc"], t.get("macros"))
        _, hits, _ = jasmapi.run_consumer(regex_text, jasmapi.decode_stream(rec["stream"]), all_matches=True)
        print("stream", rec["stream"], "hits now", hits, "recorded problems", rec["problems"])
        return 1
    from checks import replay as R

    return R.main("C11", sys.argv[-1])


if __name__ == "__main__":
    sys.exit(main())
