"""C19: every @macro reference is expanded or reported.
Defined references: the compiled matcher must equal the reference semantics of the inlined rule (RX, every listing).
Undefined references / bad macro names: compilation must raise an error naming the macro (finite shapes, run concretely);
if such a rule compiles, z3 decides whether the surviving '@name' makes the matcher unsatisfiable on '@'-free listings."""
import copy
import sys

import z3

from vlib import common, lemmas, rx
from vlib.common import Run, seed, tier
from vlib.spec import Spec
from checks.rxprops import ASSUME

OTHER = {"name": "@other", "pattern": "ret"}  # an unrelated definition, so that macro definitions are "in play"

# (position kind, pattern using @ref, inlined pattern, definition of @ref)
POSITIONS = [
    ("list_item", ["push", "@ref", "@other"], ["push", {"mov": ["a"]}, "ret"], {"name": "@ref", "pattern": [{"mov": ["a"]}]}),
    ("list_item_str", ["push", "@ref", "@other"], ["push", "mov", "ret"], {"name": "@ref", "pattern": "mov"}),
    ("operand", ["push", {"mov": ["@ref", "b"]}, "@other"], ["push", {"mov": ["a", "b"]}, "ret"], {"name": "@ref", "pattern": "a"}),
    ("operand_last", ["push", {"mov": ["b", "@ref"]}, "@other"], ["push", {"mov": ["b", "a"]}, "ret"], {"name": "@ref", "pattern": "a"}),
    ("dict_value", [{"mov": [{"$deref": {"main_reg": "@ref", "constant_offset": "0x8"}}]}, "@other"], [{"mov": [{"$deref": {"main_reg": "%rax", "constant_offset": "0x8"}}]}, "ret"], {"name": "@ref", "pattern": "%rax"}),
    ("dict_key_times", ["push", {"@ref": {"times": 2}}, "@other"], ["push", {"mov": {"times": 2}}, "ret"], {"name": "@ref", "pattern": "mov"}),
    ("in_operator", ["push", {"$or": ["@ref", "add"]}, "@other"], ["push", {"$or": ["mov", "add"]}, "ret"], {"name": "@ref", "pattern": "mov"}),
    ("in_not", ["push", {"$not": ["@ref"]}, "@other"], ["push", {"$not": ["mov"]}, "ret"], {"name": "@ref", "pattern": "mov"}),
    # the same positions inside an item / group that carries a SIBLING `times` key (mapping with two keys)
    ("in_operator_sibling_times", ["push", {"$or": ["@ref", "add"], "times": {"min": 1, "max": 2}}, "@other"], ["push", {"$or": ["mov", "add"], "times": {"min": 1, "max": 2}}, "ret"], {"name": "@ref", "pattern": "mov"}),
    ("in_and_sibling_times", ["push", {"$and": ["add", "@ref"], "times": 2}, "@other"], ["push", {"$and": ["add", "mov"], "times": 2}, "ret"], {"name": "@ref", "pattern": "mov"}),
    ("dict_key_in_operator_sibling_times", ["push", {"$or": [{"@ref": {"times": 1}}, "add"], "times": 2}, "@other"], ["push", {"$or": [{"mov": {"times": 1}}, "add"], "times": 2}, "ret"], {"name": "@ref", "pattern": "mov"}),
    ("operand_sibling_times", ["push", {"mov": ["@ref", "b"], "times": 2}, "@other"], ["push", {"mov": ["a", "b"], "times": 2}, "ret"], {"name": "@ref", "pattern": "a"}),
    ("in_not_sibling_times", ["push", {"$not": ["@ref"], "times": {"min": 1, "max": 2}}, "@other"], ["push", {"$not": ["mov"], "times": {"min": 1, "max": 2}}, "ret"], {"name": "@ref", "pattern": "mov"}),
    ("substring", ["push", "x@refx", "@other"], ["push", "xmovx", "ret"], {"name": "@ref", "pattern": "mov"}),
    ("param_call", ["push", {"@ref": None, "p-arg": "a"}, "@other"], ["push", {"mov": ["a", "a"]}, "ret"], {"name": "@ref", "args": ["p-arg"], "pattern": [{"mov": ["p-arg", "p-arg"]}]}),
]


def cases():
    out = []
    for kind, pat, inl, d in POSITIONS:
        dom = "att_mem" if kind == "dict_value" else None
        for where in ("file", "extra"):
            for order in ("ref_first", "ref_last"):
                macros = [d, OTHER] if order == "ref_first" else [OTHER, d]
                out.append({"id": f"defined/{kind}/{where}/{order}", "feature": f"ref_{kind}", "expect": "equiv", "pattern": pat, "inlined": inl, "macros": macros, "where": where, "domain": dom})
        # undefined reference, another macro defined
        out.append({"id": f"undefined/{kind}/file", "feature": f"undef_{kind}", "expect": "error", "name": "@ref", "pattern": pat, "macros": [OTHER], "where": "file"})
        out.append({"id": f"undefined/{kind}/extra", "feature": f"undef_{kind}", "expect": "error", "name": "@ref", "pattern": pat, "macros": [OTHER], "where": "extra"})
        # ... and the same while the rule uses NONE of the defined macros (nothing gets expanded at all)
        def _no_other(n):
            if isinstance(n, list):
                return [_no_other(x) for x in n]
            if isinstance(n, dict):
                return {k: _no_other(v) for k, v in n.items()}
            return "ret" if n == "@other" else n
        for where in ("file", "extra"):
            out.append({"id": f"undefined/{kind}/unused_definition/{where}", "feature": f"undef_{kind}", "expect": "error", "name": "@ref", "pattern": _no_other(pat), "macros": [OTHER], "where": where})
    # reference inside another macro's body
    body_outer = {"name": "@outer", "pattern": [{"mov": ["@inner", "b"]}]}
    inner = {"name": "@inner", "pattern": "a"}
    pat, inl = ["push", "@outer", "@other"], ["push", {"mov": ["a", "b"]}, "ret"]
    for where in ("file", "extra"):
        out.append({"id": f"defined/in_body/user_first/{where}", "feature": "ref_in_body_user_first", "expect": "equiv", "pattern": pat, "inlined": inl, "macros": [body_outer, inner, OTHER], "where": where})
        out.append({"id": f"defined/in_body/user_first_last/{where}", "feature": "ref_in_body_user_first", "expect": "equiv", "pattern": pat, "inlined": inl, "macros": [OTHER, body_outer, inner], "where": where})
        # definition listed BEFORE its user: must be expanded or reported
        out.append({"id": f"defined/in_body/def_first_mid/{where}", "feature": "ref_in_body_def_first", "expect": "equiv_or_error", "name": "@inner", "pattern": pat, "inlined": inl, "macros": [inner, body_outer, OTHER], "where": where})
        out.append({"id": f"defined/in_body/def_first_last/{where}", "feature": "ref_in_body_def_first_last", "expect": "equiv_or_error", "name": "@inner", "pattern": pat, "inlined": inl, "macros": [OTHER, inner, body_outer], "where": where})
        out.append({"id": f"undefined/in_body/{where}", "feature": "undef_in_body", "expect": "error", "name": "@inner", "pattern": pat, "macros": [body_outer, OTHER], "where": where})
        out.append({"id": f"undefined/in_body_last/{where}", "feature": "undef_in_body_last", "expect": "error", "name": "@inner", "pattern": pat, "macros": [OTHER, body_outer], "where": where})
    # a three-level chain whose middle macro is listed before its user and refers to a macro listed last
    chain = [{"name": "@mid", "pattern": [{"xor": ["@leaf", "@leaf"]}]}, {"name": "@top", "pattern": [{"$and": ["push", "@mid"]}]}, {"name": "@leaf", "pattern": "a"}]
    for where in ("file", "extra"):
        out.append({"id": f"defined/chain3/mid_first/{where}", "feature": "ref_chain3", "expect": "equiv_or_error", "name": "@mid", "pattern": ["@top", "@other"], "inlined": [{"$and": ["push", {"xor": ["a", "a"]}]}, "ret"], "macros": chain + [OTHER], "where": where})
        out.append({"id": f"defined/chain3/bottom_up/{where}", "feature": "ref_chain3", "expect": "equiv_or_error", "name": "@mid", "pattern": ["@top", "@other"], "inlined": [{"$and": ["push", {"xor": ["a", "a"]}]}, "ret"], "macros": [chain[2], chain[0], chain[1], OTHER], "where": where})
        out.append({"id": f"undefined/chain3/typo_in_mid/{where}", "feature": "undef_chain3", "expect": "error", "name": "@mid", "pattern": ["@top", "@other"], "macros": [{"name": "@mid", "pattern": [{"xor": ["@lfea", "@lfea"]}]}, chain[1], chain[2], OTHER], "where": where})
    # other positions INSIDE a macro body: dict value ($deref field), dict key with a times body, operator child
    bodies = [
        ("body_dict_value", {"name": "@outer", "pattern": [{"mov": [{"$deref": {"main_reg": "@inner", "constant_offset": "0x8"}}, "b"]}]}, {"name": "@inner", "pattern": "%rax"}, ["push", {"mov": [{"$deref": {"main_reg": "%rax", "constant_offset": "0x8"}}, "b"]}, "ret"], "att_mem"),
        ("body_dict_key", {"name": "@outer", "pattern": [{"$and": [{"@inner": {"times": 2}}, "add"]}]}, {"name": "@inner", "pattern": "mov"}, ["push", {"$and": [{"mov": {"times": 2}}, "add"]}, "ret"], None),
        ("body_operator_child", {"name": "@outer", "pattern": [{"$or": ["@inner", "add"]}]}, {"name": "@inner", "pattern": "mov"}, ["push", {"$or": ["mov", "add"]}, "ret"], None),
    ]
    for kind, outer, inner_d, inl2, dom in bodies:
        for where in ("file", "extra"):
            out.append({"id": f"defined/{kind}/{where}", "feature": f"ref_{kind}", "expect": "equiv", "pattern": pat, "inlined": inl2, "macros": [outer, inner_d, OTHER], "where": where, "domain": dom})
            out.append({"id": f"undefined/{kind}/{where}", "feature": f"undef_{kind}", "expect": "error", "name": "@inner", "pattern": pat, "macros": [outer, OTHER], "where": where})
            out.append({"id": f"undefined/{kind}_last/{where}", "feature": f"undef_{kind}", "expect": "error", "name": "@inner", "pattern": pat, "macros": [OTHER, outer], "where": where})
            out.append({"id": f"undefined/{kind}_only/{where}", "feature": f"undef_{kind}", "expect": "error", "name": "@inner", "pattern": ["push", "@outer", "ret"], "macros": [outer], "where": where})
    # split: user in the rule file, definition in an extra file and vice versa
    out.append({"id": "defined/in_body/split_user_in_file", "feature": "ref_in_body_split", "expect": "equiv_or_error", "name": "@inner", "pattern": pat, "inlined": inl, "macros": [body_outer, OTHER], "extra_macros": [inner], "where": "mixed"})
    out.append({"id": "defined/in_body/split_def_in_file", "feature": "ref_in_body_user_first", "expect": "equiv", "pattern": pat, "inlined": inl, "macros": [inner, OTHER], "extra_macros": [body_outer], "where": "mixed"})
    # a rule-file macro whose name is a prefix of a library macro's name: both references are expanded as written
    out.append({"id": "defined/prefix_names/file_short_extra_long", "feature": "ref_prefix_names", "expect": "equiv", "pattern": ["push", "@any_shift", "@any"], "inlined": ["push", "shl", "x"], "macros": [{"name": "@any", "pattern": "x"}], "extra_macros": [{"name": "@any_shift", "pattern": "shl"}], "where": "mixed"})
    # (the mirrored split - library defines the SHORT name - is ambiguous by the DSL's own substring rule: `@any_shift` is then a
    # legal use of `@any` inside a name; not demanded)
    # an undefined reference whose name contains characters outside [A-Za-z0-9_] (a typo of a defined name)
    for nm in ("@oth-er", "@ot.her", "@oth+er"):
        out.append({"id": f"undefined/odd_name/{nm}", "feature": "undef_odd_name", "expect": "error", "name": nm, "pattern": ["push", {"mov": [nm, "b"]}, "@other"], "macros": [OTHER], "where": "file"})
        out.append({"id": f"undefined/odd_name_item/{nm}", "feature": "undef_odd_name", "expect": "error", "name": nm, "pattern": ["push", nm, "@other"], "macros": [OTHER], "where": "extra"})
    # a badly named macro while the pattern contains no '@' at all (the author forgot the '@' everywhere)
    for where in ("file", "extra"):
        out.append({"id": f"badname_no_at_anywhere/{where}", "feature": "bad_macro_name", "expect": "error", "name": "noat", "pattern": ["push", {"mov": ["noat"]}], "macros": [{"name": "noat", "pattern": "rax"}], "where": where})
    # macro whose own name does not start with '@'
    for where in ("file", "extra"):
        out.append({"id": f"badname/{where}", "feature": "bad_macro_name", "expect": "error", "name": "noat", "pattern": ["push", "@other"], "macros": [OTHER, {"name": "noat", "pattern": "mov"}], "where": where})
    return out


def docs_of(c):
    if c["where"] == "file":
        return {"macros": copy.deepcopy(c["macros"]), "pattern": copy.deepcopy(c["pattern"])}, None
    if c["where"] == "extra":
        return {"pattern": copy.deepcopy(c["pattern"])}, [{"macros": copy.deepcopy(c["macros"])}]
    return {"macros": copy.deepcopy(c["macros"]), "pattern": copy.deepcopy(c["pattern"])}, [{"macros": copy.deepcopy(c["extra_macros"])}]


def survives_semantically(regex_text):
    """z3: does the compiled matcher admit any '@'-free well-formed listing?  ('unsat' = the '@name' text is required)"""
    U, _ = lemmas.worlds()
    try:
        ast, _n = rx.parse(regex_text)
        t = rx.Tr(U)
        L0 = t.lang(ast, U.ANY, (0,), (0,))
        s = Spec(U)
        noat = z3.Star(U.chars([c for c in U.alphabet if c != ord("@")], (0,)))
        q = rx.Q(30000)
        v, w = q.check(rx.inter(s.WF((0,)), L0, noat))
        return v, (U.decode(w)[0] if v == "sat" else None), q
    except rx.Unsupported as e:
        return "unsupported", str(e), None


def main():
    from vlib import jasmapi

    run = Run("C19", "translation_validation", "RX")
    cs = cases()
    equiv_tpls = []
    for c in cs:
        run.count("cases")
        doc, extra = docs_of(c)
        c["doc"], c["extra"] = doc, extra
        try:
            regex_text = jasmapi.compile_rule(doc, extra)
            err = None
        except Exception as e:
            regex_text, err = None, e
        if err is not None:
            named = c.get("name") is not None and c["name"] in str(err)
            if c["expect"] in ("error", "equiv_or_error"):
                if named:
                    run.count("reported_with_name")
                else:
                    run.failure(f"{c['feature']}/ERROR-NOT-NAMING/-", f"case={c['id']} raised {type(err).__name__}: {err} without naming {c.get('name')}", {"kind": "c19", "case": c})
            else:
                run.failure(f"{c['feature']}/SPURIOUS-ERROR/-", f"case={c['id']} a defined reference made compilation fail: {type(err).__name__}: {err}", {"kind": "c19", "case": c})
            continue
        # it compiled
        if c["expect"] == "error":
            v, w, q = survives_semantically(regex_text)
            if q:
                run.count("queries", q.n)
                run.solver_s += q.wall
            run.count(f"SURVIVE:{v}")
            run.failure(f"{c['feature']}/UNREPORTED/-", f"case={c['id']} compiled silently; '@' in regex: {'@' in regex_text}; matcher satisfiable on @-free listings: {v}", {"kind": "c19", "case": c, "regex": regex_text})
            continue
        t = {"id": c["id"], "doc": doc, "macros": extra, "pattern": c["inlined"], "feature": c["feature"], "lemmas": ("AEM", "VAL")}
        if c.get("domain"):
            t["domain"] = c["domain"]
        equiv_tpls.append(t)
        if "@" in regex_text:
            run.count("at_sign_in_regex")
    lemmas.run_templates(run, equiv_tpls)
    # an undefined reference must be reported EVERY time, whatever was compiled before with other macro files
    seq_items = [
        ("needs_leave_only_stack", {"pattern": ["@save", "nop", "@leave"]}, [("stack_macros.yaml", [{"name": "@save", "pattern": "push"}])]),
        ("both_files", {"pattern": ["@save", "@idle", "@leave"]}, [("stack_macros.yaml", [{"name": "@save", "pattern": "push"}]), ("flow_macros.yaml", [{"name": "@leave", "pattern": "ret"}, {"name": "@idle", "pattern": "nop"}])]),
        ("flow_only", {"pattern": ["@idle", "@leave"]}, [("flow_macros.yaml", [{"name": "@leave", "pattern": "ret"}, {"name": "@idle", "pattern": "nop"}])]),
    ]
    lemmas.sequence_invariance(run, seq_items, "macro_files")
    cov = {
        "programs": len(cs),
        "disagreements_checked": run.counts.get("disagreements_replayed", 0),
        "rule": "programs = reference placements: 10 position kinds x defined/undefined x definition order x rule-file/extra-file, references inside macro bodies in every listing order, bad macro names. Defined: AEM equivalence with the inlined rule's reference language (z3, every listing). Undefined: must raise naming the macro (concrete; finite shapes).",
        "exhaustive": True,
        "source_hashes": common.file_hashes(["src/jasm/jasm_regex/macro_expander/macro_expander.py", "src/jasm/jasm_regex/yaml2regex.py"]),
    }
    return run.finish(cov, ASSUME + ["undefined-reference shapes are single points executed concretely (MacroExpander cannot be run symbolically: match/case class patterns)"])


def replay(rec):
    from vlib import jasmapi

    c = rec["case"]
    doc, extra = docs_of(c)
    try:
        r = jasmapi.compile_rule(doc, extra)
        print("compiled silently:", r[:300])
        return 1 if c["expect"] == "error" else 0
    except Exception as e:
        print("raised", type(e).__name__, e)
        named = c.get("name") and c["name"] in str(e)
        return 0 if (c["expect"] != "equiv" and named) else 1


if __name__ == "__main__":
    sys.exit(main())
