"""C15: matching a binary == matching its `objdump -d -M att` text.
What lives in JASM and is decided here (CrossHair on the real code, subprocess / Path / open replaced by contract stubs):
  * for every `sections` list the argv handed to subprocess.run is exactly
        ["objdump", "-d", "-M", "att"] + ["-j", s]* + [file]     with capture_output, text and check set,
  * the returned stdout is handed UNCHANGED to the same parser type the assembly route uses,
  * the assembly route hands the file content unchanged to that parser.
What objdump prints for those flags is the environment and is TRUSTED; it is validated by a concrete differential run
(binary route vs the sandbox's own objdump text through the assembly route) on the repo's binaries."""
import glob
import os
import subprocess
import sys

from vlib import ch, common
from vlib.common import Run, tier

PRE = '''
import jasm.stringify_asm.implementations.shell_disassembler as _sd
import jasm.stringify_asm.implementations.null_disassembler as _nd
import jasm.match as _m
from jasm.global_definitions import JASMConfig, DisassStyle, InputFileType
from jasm.stringify_asm.implementations.gnu_objdump.gnu_objdump_parser_manual import ObjdumpParserManual
from jasm.stringify_asm.implementations.composable_producer import ComposableProducer

class _Result:
    def __init__(self, out):
        self.returncode = 0
        self.stdout = out
        self.stderr = ""

class _Subprocess:
    CalledProcessError = _sd.CalledProcessError
    calls = []
    out = ""
    @classmethod
    def run(cls, argv, **kw):
        cls.calls.append((list(argv), dict(kw)))
        return _Result(cls.out)
_sd.subprocess = _Subprocess

class _Path:
    def __init__(self, p):
        self.p = p
    def exists(self):
        return True
_sd.Path = _Path

class _RecordingParser:
    seen = []
    def parse(self, file, iConsumer):
        _RecordingParser.seen.append(file)

class _Consumer:
    finalized = 0
    def consume_instruction(self, inst):
        pass
    def finalize(self):
        _Consumer.finalized += 1

def _plainsec(s: str) -> bool:
    return True
'''


def harnesses(t):
    T = 60 if t == "quick" else 200
    hs = []
    tuples = [(1, 1, 1), (2, 2, 2), (2, 1, 0)] + ([(3, 3, 3), (1, 4, 2)] if t == "thorough" else [])
    for tp in tuples:
        tag = "".join(map(str, tp))
        hs.append(ch.H(f"c15/argv/{tag}", f'''def argv_{tag}(n: int, has_key: bool, has_range: bool, mfm: bool, ofm: bool, s1: str, s2: str, s3: str, out: str, fname: str) -> bool:
    """
    pre: 0 <= n <= 3 and len(s1) == {tp[0]} and len(s2) == {tp[1]} and len(s3) == {tp[2]} and len(out) <= 3 and 1 <= len(fname) <= 2
    post: _
    """
    secs = [s1, s2, s3][:n]
    conf = {{"sections": list(secs)}} if has_key else {{}}
    # options that belong to other features: the disassembler invocation must not depend on them
    if has_range:
        conf["valid_addr_range"] = {{"min": "0x0", "max": "0x8"}}
    if mfm:
        conf["mnemonics-full-match"] = True
    if ofm:
        conf["operands-full-match"] = True
    JASMConfig.get_instance().load_config(conf)
    if not has_key:
        secs = []
    _Subprocess.calls = []
    _Subprocess.out = out
    _RecordingParser.seen = []
    _Consumer.finalized = 0
    producer = _m.ProducerBuilder.build(file_type=InputFileType.binary, assembly_style=DisassStyle.att)
    same_parser = type(producer.parser) is ObjdumpParserManual
    producer.parser = _RecordingParser()
    producer.process_file(file=fname, iConsumer=_Consumer())
    want = ["objdump", "-d", "-M", "att"]
    for s in secs:
        want += ["-j", s]
    want += [fname]
    if len(_Subprocess.calls) != 1:
        return False
    argv, kw = _Subprocess.calls[0]
    return same_parser and argv == want and kw.get("capture_output") is True and kw.get("text") is True and kw.get("check") is True \\
        and _RecordingParser.seen == [out] and _Consumer.finalized == 1
''', timeout=T, prelude=PRE, key="binary_route", note="symbolic sections list (0-3 names), symbolic presence of valid_addr_range and the full-match flags, symbolic objdump output text, symbolic file name",
                       probe=[f"argv_{tag}({n}, True, {hr}, False, False, {'.text'[:tp[0]]!r}, {'.init'[:tp[1]]!r}, {'.fini'[:tp[2]]!r}, 'out', 'f')" for n in (0, 1, 2, 3) for hr in (False, True)]))
    hs.append(ch.H("c15/two_runs", '''def two_runs(n: int, s1: str, f1: str, f2: str) -> bool:
    """
    pre: 0 <= n <= 1 and len(s1) == 2 and len(f1) == 1 and len(f2) == 1
    post: _
    """
    # two binary matches in one process with the same style and sections: the second argv must not depend on the first
    secs = [s1][:n]
    JASMConfig.get_instance().load_config({"sections": list(secs)})
    ok = True
    for fname in (f1, f2, f1):
        _Subprocess.calls = []
        _Subprocess.out = "x"
        producer = _m.ProducerBuilder.build(file_type=InputFileType.binary, assembly_style=DisassStyle.att)
        producer.parser = _RecordingParser()
        producer.process_file(file=fname, iConsumer=_Consumer())
        want = ["objdump", "-d", "-M", "att"]
        for s in secs:
            want += ["-j", s]
        ok = ok and len(_Subprocess.calls) == 1 and _Subprocess.calls[0][0] == want + [fname]
    return ok
''', timeout=T, prelude=PRE, key="binary_route_repeated", note="three consecutive binary matches in one process"))
    hs.append(ch.H("c15/assembly_route", '''def assembly_route(content: str, fname: str) -> bool:
    """
    pre: len(content) <= 4 and 1 <= len(fname) <= 2
    post: _
    """
    class _F:
        def __enter__(self):
            return self
        def __exit__(self, *a):
            return False
        def read(self):
            return content
    opened = []
    def _open(path, mode="r", encoding=None):
        opened.append((path, mode))
        return _F()
    _nd.open = _open
    _RecordingParser.seen = []
    _Consumer.finalized = 0
    producer = _m.ProducerBuilder.build(file_type=InputFileType.assembly, assembly_style=DisassStyle.att)
    same_parser = type(producer.parser) is ObjdumpParserManual
    producer.parser = _RecordingParser()
    producer.process_file(file=fname, iConsumer=_Consumer())
    return same_parser and opened == [(fname, "r")] and _RecordingParser.seen == [content] and _Consumer.finalized == 1
''', timeout=T, prelude=PRE, key="assembly_route", note="file content handed unchanged to the same parser type"))
    return hs


def differential(run, t):
    """validation of the trusted part: binary route vs own objdump text through the assembly route"""
    from vlib import jasmapi

    bins = sorted(glob.glob(os.path.join(common.REPO, "tests/binary/*")))
    small = [b for b in bins if os.path.getsize(b) < 60000]
    use = small[:2] if t == "quick" else bins
    rule_plain = {"pattern": [{"mov": ["rax"]}, "ret"]}
    for b in use:
        for secs in (None, [".text"], [".init", ".fini"], [".nonexistent"]):
            if t == "quick" and secs not in (None, [".text"]):
                continue
            doc = dict(rule_plain)
            if secs is not None:
                doc = {"config": {"sections": secs}, "pattern": rule_plain["pattern"]}
            if secs == [".text"]:
                # other options ride along: a tagging range and the full-match flags must not change what is disassembled
                doc["config"].update({"valid_addr_range": {"min": "0x1000", "max": "0x1040"}, "mnemonics-full-match": True})
            argv = ["objdump", "-d", "-M", "att"] + [x for s in (secs or []) for x in ("-j", s)] + [b]
            p = subprocess.run(argv, capture_output=True, text=True)
            if p.returncode != 0:
                continue
            try:
                with jasmapi.scratch() as d:
                    import yaml
                    from jasm.global_definitions import InputFileType, MatchConfig, MatchingReturnMode, MatchingSearchMode
                    from jasm.match import MasterOfPuppets

                    rp = os.path.join(d, "r.yaml")
                    open(rp, "w").write(yaml.safe_dump(doc, sort_keys=False))
                    ap = os.path.join(d, "a.s")
                    open(ap, "w").write(p.stdout)
                    res = {}
                    for mode in (MatchingReturnMode.all_instructions_string, MatchingReturnMode.matched_addrs_list):
                        res[("bin", mode)] = MasterOfPuppets(MatchConfig(rp, b, InputFileType.binary, False, mode, MatchingSearchMode.all_finds)).perform_matching()
                        res[("asm", mode)] = MasterOfPuppets(MatchConfig(rp, ap, InputFileType.assembly, False, mode, MatchingSearchMode.all_finds)).perform_matching()
            except Exception as e:
                run.inconc(f"differential run on {os.path.basename(b)} sections={secs}: {type(e).__name__}: {e}")
                continue
            run.count("traces_validated_against_impl")
            for mode in (MatchingReturnMode.all_instructions_string, MatchingReturnMode.matched_addrs_list):
                if res[("bin", mode)] != res[("asm", mode)]:
                    run.failure("differential/ROUTES", f"{os.path.basename(b)} sections={secs}: binary route and objdump-text route differ in {mode.name}", {"kind": "diff", "binary": b, "sections": secs})


def rewritten_binary(run):
    """the binary at one path is replaced (same size, same mtime) between two matches in one process, and an archive /
    non-ELF object is given: the binary route must follow what objdump prints for the CURRENT file"""
    import shutil

    import yaml
    from vlib import jasmapi
    from jasm.global_definitions import InputFileType, MatchConfig, MatchingReturnMode, MatchingSearchMode
    from jasm.match import MasterOfPuppets

    if not (shutil.which("objcopy") and shutil.which("objdump")):
        run.inconc("objcopy/objdump not available: rewritten-binary probe skipped")
        return
    with jasmapi.scratch() as d:
        rp = os.path.join(d, "r.yaml")
        open(rp, "w").write(yaml.safe_dump({"pattern": ["ret"]}, sort_keys=False))
        obj = os.path.join(d, "prog.o")

        def build(code, path):
            raw = os.path.join(d, "raw.bin")
            open(raw, "wb").write(code)
            subprocess.run(["objcopy", "-I", "binary", "-O", "elf64-x86-64", "-B", "i386:x86-64", "--rename-section", ".data=.text,code,alloc,load,readonly", raw, path], check=True, capture_output=True)

        def both(path):
            txt = subprocess.run(["objdump", "-d", "-M", "att", path], capture_output=True, text=True).stdout
            ap = os.path.join(d, "cur.s")
            open(ap, "w").write(txt)
            try:
                b = MasterOfPuppets(MatchConfig(rp, path, InputFileType.binary, False, MatchingReturnMode.all_instructions_string, MatchingSearchMode.all_finds)).perform_matching()
            except Exception as e:   # objdump printed a listing for this file (txt): a refusal of the binary route is a difference
                b = f"<binary route raised {type(e).__name__}: {e}>" if txt.strip() else ""
            a = MasterOfPuppets(MatchConfig(rp, ap, InputFileType.assembly, False, MatchingReturnMode.all_instructions_string, MatchingSearchMode.all_finds)).perform_matching()
            return b, a

        try:
            build(bytes.fromhex("554889e55dc3"), obj)
            st = os.stat(obj)
            r1 = both(obj)
            build(bytes.fromhex("904831c090c3"), obj)
            os.utime(obj, (st.st_atime, st.st_mtime))
            r2 = both(obj)
            # a static library (ar archive) of the first object: objdump disassembles its member
            lib = os.path.join(d, "libp.a")
            build(bytes.fromhex("554889e55dc3"), os.path.join(d, "m.o"))
            have_ar = shutil.which("ar") and subprocess.run(["ar", "rcs", lib, os.path.join(d, "m.o")], capture_output=True).returncode == 0
            r3 = both(lib) if have_ar else None
        except Exception as e:
            run.inconc(f"rewritten-binary probe: {type(e).__name__}: {e}")
            return
        for nm, r in (("first", r1), ("rewritten_same_size_same_mtime", r2), ("ar_archive", r3)):
            if r is None:
                continue
            run.count("traces_validated_against_impl")
            if r[0] != r[1] or not r[1]:
                run.failure(f"differential/{nm}", f"{nm}: binary route gives {r[0][:120]!r}, the objdump text of the current file gives {r[1][:120]!r}", {"kind": "diff", "binary": nm, "sections": None})


def main():
    run = Run("C15", "model_checking", "CH")
    hs = harnesses(tier())
    ch.run_harnesses(run, hs)
    differential(run, tier())
    rewritten_binary(run)
    cov = {
        "states": len(hs),
        "transitions": run.counts.get("harness_runs", 0),
        "traces_validated_against_impl": run.counts.get("traces_validated_against_impl", 0),
        "explanation": "states = CrossHair conditions (symbolic sections list 0-3 names, symbolic objdump output, symbolic file name/content); traces = concrete differential runs binary route vs objdump-text route on the repo's binaries (validation of the trusted objdump behaviour)",
        "confirmed_over_all_paths": run.counts.get("ch:confirmed", 0),
        "functions_encoded": ["JASMConfig._load_sections", "GNUObjdumpDisassembler.__init__/_form_section_flags", "ShellDisassembler.disassemble", "NullDisassembler.disassemble", "ProducerBuilder.build", "ComposableProducer.process_file"],
        "stubs": ["shell_disassembler.subprocess (records argv/kwargs, returns rc 0 + symbolic stdout)", "shell_disassembler.Path.exists -> True", "null_disassembler.open (returns symbolic content)", "parser replaced by a recorder after its type was checked"],
        "source_hashes": common.file_hashes(["src/jasm/stringify_asm/implementations/gnu_objdump/gnu_objdump_disassembler.py", "src/jasm/stringify_asm/implementations/shell_disassembler.py", "src/jasm/stringify_asm/implementations/null_disassembler.py", "src/jasm/stringify_asm/implementations/composable_producer.py", "src/jasm/match.py"]),
    }
    return run.finish(cov, ["GNU objdump's behaviour for -d -M att -j is trusted (validated by the differential runs)", "style att (the only style the parser supports)"])


def replay(rec):
    if rec.get("kind") == "diff":
        print("re-run ./check C15: differential on", rec["binary"], rec["sections"])
        return 1
    return ch.replay_record(rec)


if __name__ == "__main__":
    sys.exit(main())
