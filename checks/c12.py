"""C12 (and the plumbing half of C11): the 2x2x2 result modes agree.
CrossHair drives the REAL MasterOfPuppets._do_matching_and_get_result, ConsumerBuilder, CompleteConsumer and
MatchedObserver; the third-party regex engine and the producer are contract stubs:
  engine stub   finditer yields an arbitrary (symbolic) list of hit texts in order, search yields its first element
                (the engine's own contract, trusted); it records every call so that the harness can assert the exact
                (pattern, string) handed over and that no keyword other than `timeout` is passed;
  producer stub feeds a fixed instruction list and calls finalize().
"""
import sys

from vlib import ch, common
from vlib.common import Run, tier

PRE = '''
import jasm.consumer as _c
import jasm.match as _m
from jasm.global_definitions import Instruction, MatchConfig, MatchingReturnMode, MatchingSearchMode, InputFileType, DisassStyle, JASMConfig

class _Hit:
    def __init__(self, text):
        self._t = text
    def group(self, k=0):
        assert k == 0
        return self._t
    def __bool__(self):
        return True

class _Engine:
    hits = []
    calls = []
    @classmethod
    def search(cls, pattern=None, string=None, **kw):
        cls.calls.append(("search", pattern, string, tuple(sorted(kw))))
        return _Hit(cls.hits[0]) if cls.hits else None
    @classmethod
    def finditer(cls, pattern=None, string=None, **kw):
        cls.calls.append(("finditer", pattern, string, tuple(sorted(kw))))
        return iter([_Hit(h) for h in cls.hits])
_c.regex = _Engine

class _Producer:
    def process_file(self, file, iConsumer):
        iConsumer.consume_instruction(Instruction("10", "mov", ["%rax", "%rbx"]))
        # what the parser emits for a byte-continuation line: dropped by the observers, never part of the stream
        iConsumer.consume_instruction(Instruction("12", "empty", []))
        iConsumer.consume_instruction(Instruction("13", "ret", []))
        iConsumer.finalize()

class _PB:
    @staticmethod
    def build(file_type=None, assembly_style=None):
        return _Producer()
_m.ProducerBuilder = _PB

STREAM = "10::mov,%rax,%rbx,|13::ret,,|"

def _run(hits, want_list, all_mode, only_addr):
    JASMConfig.get_instance().load_config({})
    _Engine.hits = hits
    _Engine.calls = []
    mop = _m.MasterOfPuppets.__new__(_m.MasterOfPuppets)
    mop.match_config = MatchConfig(
        pattern_pathstr="p", input_file="f", input_file_type=InputFileType.assembly,
        return_only_address=only_addr,
        return_mode=MatchingReturnMode.matched_addrs_list if want_list else MatchingReturnMode.bool,
        matching_mode=MatchingSearchMode.all_finds if all_mode else MatchingSearchMode.first_find,
    )
    mop.global_config = JASMConfig()
    res = mop._do_matching_and_get_result(regex_rule="RULE", assembly_style=DisassStyle.att)
    return res, list(_Engine.calls)

def _noc(s: str) -> bool:
    return ":" not in s
'''


def harnesses(t):
    T = 90 if t == "quick" else 300
    hs = []
    tuples = [(1, 1, 1, 1), (2, 2, 2, 2), (1, 2, 2, 0)] + ([(3, 3, 3, 3), (2, 0, 1, 4), (4, 1, 1, 1)] if t == "thorough" else [])
    for tp in tuples:
        tag = "".join(map(str, tp))
        src = f'''def modes_{tag}(n: int, a1: str, r1: str, a2: str, r2: str, empty_hit: bool) -> bool:
    """
    pre: 0 <= n <= 2
    pre: len(a1) == {tp[0]} and len(r1) == {tp[1]} and len(a2) == {tp[2]} and len(r2) == {tp[3]}
    pre: _noc(a1) and _noc(a2)
    post: _
    """
    hits = [a1 + "::" + r1, a2 + "::" + r2][:n]
    addrs = [a1, a2][:n]
    if empty_hit and n > 0:
        # a rule that can match the empty sequence yields the empty text as a finding: still a finding
        hits[0], addrs[0] = "", ""
    ok = True
    for all_mode in (False, True):
        for only_addr in (False, True):
            b, calls_b = _run(hits, False, all_mode, only_addr)
            l, calls_l = _run(hits, True, all_mode, only_addr)
            exp_full = hits if all_mode else hits[:1]
            exp = (addrs if all_mode else addrs[:1]) if only_addr else exp_full
            # boolean <=> list non-empty; list = expected prefix; address-only = element-wise address
            ok = ok and (b is (n > 0)) and l == exp and (b is (len(l) > 0))
            # plumbing (C11): one engine call, the right entry point, exactly (RULE, STREAM), only `timeout` as keyword
            want = "finditer" if all_mode else "search"
            ok = ok and len(calls_l) == 1 and calls_l[0][0] == want and calls_l[0][1] == "RULE" and calls_l[0][2] == STREAM and calls_l[0][3] == ("timeout",)
    return ok
'''
        hs.append(ch.H(f"c12/modes/{tag}", src, timeout=T, prelude=PRE, key="modes_agree", note="n in 0..2 symbolic hits addr::rest, all 8 modes evaluated inside the harness"))
    # long addresses (12-, 14-, 16-, 17- and 20-digit: 48-bit user space, kernel text, zero-padded listings): a concrete
    # prefix of k digits followed by symbolic characters, so that any fixed-width handling of the address shows
    for k in ((11, 13, 15) if t == "quick" else (7, 11, 12, 13, 15, 16, 19, 31)):
        pfx = ("ffffffff8100000" * 3)[:k]
        src = f'''def modes_long_{k}(n: int, a1: str, r1: str, a2: str, r2: str) -> bool:
    """
    pre: 0 <= n <= 2
    pre: len(a1) == 1 and len(r1) == 2 and len(a2) == 2 and len(r2) == 1
    pre: _noc(a1) and _noc(a2)
    post: _
    """
    hits = ["{pfx}" + a1 + "::" + r1, "{pfx}" + a2 + "::" + r2][:n]
    addrs = ["{pfx}" + a1, "{pfx}" + a2][:n]
    ok = True
    for all_mode in (False, True):
        for only_addr in (False, True):
            b, calls_b = _run(hits, False, all_mode, only_addr)
            l, calls_l = _run(hits, True, all_mode, only_addr)
            exp_full = hits if all_mode else hits[:1]
            exp = (addrs if all_mode else addrs[:1]) if only_addr else exp_full
            ok = ok and (b is (n > 0)) and l == exp and (b is (len(l) > 0))
    return ok
'''
        hs.append(ch.H(f"c12/modes_long/{k}", src, timeout=T, prelude=PRE, key="modes_agree", note=f"addresses of {k}+1 / {k}+2 digits (concrete prefix, symbolic tail), all 8 modes"))
    # address of a hit = text before the first '::' (unit level, symbolic text with a free tail)
    for tp in ([(1, 2), (2, 3), (3, 1)] + ([(4, 4), (1, 6)] if t == "thorough" else [])):
        tag = "".join(map(str, tp))
        src = f'''def first_addr_{tag}(a: str, rest: str) -> bool:
    """
    pre: len(a) == {tp[0]} and len(rest) == {tp[1]} and _noc(a)
    post: _
    """
    return _c.CompleteConsumer.get_first_addr_from_regex_result(a + "::" + rest) == a
'''
        hs.append(ch.H(f"c12/first_addr/{tag}", src, timeout=T, prelude=PRE, key="first_addr", note="address-only = text before the first '::'"))
    return hs


def modes_concrete(run):
    """the 2 x 2 x 2 ways of asking, real engine, on listings whose findings are unusual: a finding across '(bad)' bytes, more than
    1000 findings, a finding at the very first instruction"""
    from vlib import jasmapi

    L1 = "".join(f"    {a}:\t{b:<21}\t{t}\n" for a, b, t in [("1000", "55", "push   %rbp"), ("1001", "90", "nop"), ("1002", "5d", "pop    %rbp"), ("1003", "55", "push   %rbp"), ("1004", "ff", "(bad)"), ("1005", "5d", "pop    %rbp"), ("1006", "c3", "ret")])
    L2 = "".join(f"    {0x2000 + 5 * i:x}:\te8 00 00 00 00       \tcall   3000 <f>\n" for i in range(1203))
    for nm, doc, listing, n_want in (("finding across (bad)", {"pattern": ["push", {"$not": ["call"]}, "pop"]}, L1, 2), ("1203 findings", {"pattern": ["call"]}, L2, 1203)):
        res = {}
        for ret in ("bool", "list"):
            for allm in (False, True):
                for addr in (False, True):
                    res[(ret, allm, addr)] = jasmapi.run_pipeline(doc, listing, None, all_matches=allm, only_addr=addr, ret=ret)
        run.count("traces_validated_against_impl")
        full, addrs = res[("list", True, False)], res[("list", True, True)]
        ok = len(full) == n_want and addrs == [x.split("::", 1)[0] for x in full]
        for addr in (False, True):
            ok = ok and res[("list", False, addr)] == res[("list", True, addr)][:1]
            for allm in (False, True):
                ok = ok and res[("bool", allm, addr)] is (len(res[("list", allm, addr)]) > 0)
        if not ok:
            run.failure("modes_agree_concrete", f"{nm}: the eight ways of asking disagree: " + ", ".join(f"{k}: {(len(v) if isinstance(v, list) else v)}" for k, v in res.items()), {"kind": "ch_none", "what": nm})


def modes_same_files(run):
    """the eight ways of asking about ONE rule file and ONE listing file (same paths), in one process, in several orders: the
    answer to each way of asking is what it is when asked first (nothing remembered from an earlier way of asking)"""
    import itertools
    import os

    import yaml
    from vlib import jasmapi
    from jasm.global_definitions import InputFileType, MatchConfig, MatchingReturnMode, MatchingSearchMode
    from jasm.match import MasterOfPuppets

    L = "".join(f"    {a}:\t{b:<21}\t{t}\n" for a, b, t in [("401000", "48 89 c3", "mov    %rax,%rbx"), ("401003", "e8 00 00 00 00", "call   401100 <f>"), ("401008", "90", "nop"), ("401009", "48 89 d8", "mov    %rbx,%rax"), ("40100c", "e8 00 00 00 00", "call   401200 <g>")])
    full = ["401000::mov,%rax,%rbx,|401003::call,401100,|", "401009::mov,%rbx,%rax,|40100c::call,401200,|"]
    def expected(ret, allm, addr):
        l = full if allm else full[:1]
        l = [x.split("::", 1)[0] for x in l] if addr else l
        return True if ret == "bool" else l
    ways = list(itertools.product(("bool", "list"), (False, True), (False, True)))
    with jasmapi.scratch() as d:
        rp, ap = os.path.join(d, "r.yaml"), os.path.join(d, "in.s")
        open(rp, "w").write(yaml.safe_dump({"pattern": ["mov", "call"]}, sort_keys=False))
        open(ap, "w").write(L)
        for order in (ways, ways[::-1], ways[4:] + ways[:4], [ways[7], ways[6], ways[5], ways[4], ways[6], ways[7]]):
            for ret, allm, addr in order:
                cfg = MatchConfig(pattern_pathstr=rp, input_file=ap, input_file_type=InputFileType.assembly, return_only_address=addr,
                                  return_mode=MatchingReturnMode.bool if ret == "bool" else MatchingReturnMode.matched_addrs_list,
                                  matching_mode=MatchingSearchMode.all_finds if allm else MatchingSearchMode.first_find)
                got = MasterOfPuppets(cfg).perform_matching()
                run.count("traces_validated_against_impl")
                if got != expected(ret, allm, addr):
                    run.failure("modes_agree_same_files", f"one rule file and one listing file asked in several ways in one process: (return={ret}, all={allm}, address_only={addr}) answered {got!r}, expected {expected(ret, allm, addr)!r}", {"kind": "ch_none", "what": "same files, several ways of asking"})
                    return


def main(prop="C12"):
    run = Run(prop, "model_checking", "CH")
    hs = harnesses(tier())
    ch.run_harnesses(run, hs)
    # the harnesses drive the mode plumbing on a two-instruction stream; here the real engine runs on long listings with a
    # long occurrence across power-of-two record borders: first-match must stay the one-element prefix of all-matches
    from checks import c11

    c11.long_match_probe(run, key="modes_agree_long")
    modes_concrete(run)
    modes_same_files(run)
    cov = {
        "states": len(hs),
        "transitions": run.counts.get("harness_runs", 0),
        "traces_validated_against_impl": run.counts.get("twin_refuted", 0),
        "explanation": "states = CrossHair conditions; each evaluates all 8 (return mode, search mode, address-only) combinations on a symbolic hit list (0-2 hits, every character symbolic) through the real MasterOfPuppets/ConsumerBuilder/CompleteConsumer/MatchedObserver",
        "confirmed_over_all_paths": run.counts.get("ch:confirmed", 0),
        "not_confirmed": run.counts.get("ch:not_confirmed", 0),
        "functions_encoded": ["MasterOfPuppets._do_matching_and_get_result", "ConsumerBuilder.build", "CompleteConsumer.finalize/do_match_first_occurence/do_match_all_findings/get_first_addr_from_regex_result", "MatchedObserver.regex_matched"],
        "stubs": ["jasm.consumer.regex (engine contract: finditer yields the hit list in order, search its first element)", "jasm.match.ProducerBuilder (feeds two fixed instructions, calls finalize)"],
        "bounds": {"hits": "0..2", "part_lengths": [h.name.split("/")[-1] for h in hs]},
        "source_hashes": common.file_hashes(["src/jasm/match.py", "src/jasm/consumer.py", "src/jasm/matched_observers.py"]),
    }
    return run.finish(cov, ["the regex engine returns, for search, the first element of what finditer yields (third-party contract, trusted)", "hit texts have the form addr::rest with ':'-free addr (C07/C10 establish this for real hits)"])


def replay(rec):
    if rec.get("kind") == "ch_none":
        print("concrete mode-agreement probe: re-run ./check C12;", rec.get("what"))
        return 1
    return ch.replay_record(rec)


if __name__ == "__main__":
    sys.exit(main())
