"""./check <ID> --replay <file>: re-run one recorded counterexample against the real code in /repo."""
import json
import sys


def main(prop, path):
    from vlib import common

    common.use_repo()
    rec = json.load(open(path))
    kind = rec.get("kind")
    print(f"replay property={prop} key={rec.get('key')}")
    print(rec.get("text"))
    if kind == "rx":
        from vlib import jasmapi, lemmas
        from vlib.oracle import Oracle

        tpl, o = rec["template"], rec["obligation"]
        regex_text = jasmapi.compile_rule(tpl["doc"], tpl.get("macros"))
        print("regex compiled by the current tree:", regex_text[:300])
        stream = o["stream"]
        pattern = tpl.get("pattern", tpl["doc"].get("pattern"))
        mf, of = lemmas.flags_of(tpl["doc"])
        if "extent" in o:
            ra = lemmas.real_admits(regex_text, stream, o["extent"])
            L = jasmapi.decode_stream(stream)
            idx = lemmas.record_index(stream, o["extent"])
            try:
                oa = idx is not None and idx in Oracle(mf, of).ends(pattern, L, 0)
            except Exception as e:  # capture templates need the env; report the recorded value
                oa = o.get("oracle_admits")
            print(f"stream={stream!r} extent={o['extent']}: real code admits={ra} reference admits={oa}")
            still = (ra != oa) if o["lemma"] == "AEM" else ra
        else:
            import regex

            m = regex.compile(regex_text).match(stream, o.get("offset") or 0)
            print(f"stream={stream!r} offset={o.get('offset')}: real match={'yes' if m else 'no'}")
            still = bool(m)
        matched, hits, _ = jasmapi.run_consumer(regex_text, jasmapi.decode_stream(stream))
        print("CompleteConsumer on the decoded instruction list ->", matched, hits)
        print("REPRODUCED" if still else "not reproduced on the current tree")
        return 1 if still else 0
    if kind == "ch":
        from vlib import ch

        return ch.replay_record(rec)
    if kind == "sequence":
        print("compile-sequence counterexample:", rec.get("seq"), [i[0] for i in rec.get("items", [])])
        print("re-run ./check", prop, "to re-decide it on the current tree")
        return 1
    if kind == "e2e":
        from vlib import jasmapi
        import regex as _regex

        tpl = rec["template"]
        regex_text = jasmapi.compile_rule(tpl["doc"], tpl.get("macros"))
        stream = jasmapi.parse_listing(rec["listing"])
        direct = _regex.search(regex_text, stream) is not None
        try:
            got = jasmapi.run_pipeline(tpl["doc"], rec["listing"], tpl.get("macros"), all_matches=False, ret="bool")
        except Exception as e:
            got = f"{type(e).__name__}: {e}"
        print(f"listing parses to {stream!r}; compiled regex applied directly matches={direct}; MasterOfPuppets answers {got}")
        return 1 if direct and got is not True else 0
    if kind == "e2en":
        from vlib import jasmapi

        tpl = rec["template"]
        regex_text = jasmapi.compile_rule(tpl["doc"], tpl.get("macros"))
        import regex as _regex

        direct = _regex.search(regex_text, rec["stream"]) is not None
        found, hits, _ = jasmapi.run_consumer(regex_text, jasmapi.decode_stream(rec["stream"]), all_matches=False)
        print(f"stream={rec['stream']!r}: compiled regex applied directly matches={direct}, consumer reports found={found} {hits}")
        return 1 if found != direct else 0
    try:
        mod = __import__(f"checks.{prop.lower()}", fromlist=["replay"])
        return mod.replay(rec)
    except (ImportError, AttributeError):
        print("no dedicated replay for this record kind; re-run ./check", prop)
        print({k: v for k, v in rec.items() if k in ("key", "text")})
        return 1
