"""C14: results depend only on the current inputs, never on earlier runs in the process.
Instead of exploring histories the PRE-STATE is symbolic (one inductive step covers histories of any length, provided the
state vector is complete):
  (i)  CrossHair: JASMConfig.load_config(cfg) from an arbitrary singleton state, for an arbitrary config document, leaves
       exactly the state a fresh singleton reaches;
  (ii) CrossHair: for each rule of a small library, the compiled regex, the observer list and the objdump flag list computed
       from an arbitrary singleton state equal the values computed from a fresh one;
  (iii) completeness of the state vector is an ASSUMPTION that is validated: every module-level and class-level object of
       jasm.* is snapshotted before/after running the rule library in-process; anything that changed outside JASMConfig is
       reported, and every ordered pair of operations is compared with the same operation run first in a fresh process."""
import copy
import json
import os
import subprocess
import sys
import types

from vlib import ch, common
from vlib.common import Run, tier

PRE = '''
import jasm.global_definitions as gd
from jasm.global_definitions import JASMConfig, PartialMatchingConfig, DisassStyle, ValidAddrRange

def _fill(st_mf, st_of, st_style_intel, st_range, st_lo, st_hi, st_sections):
    """arbitrary singleton pre-state"""
    JASMConfig._instance = None
    c = JASMConfig()
    c._set_info(PartialMatchingConfig.MnemonicsFullMatch, st_mf)
    c._set_info(PartialMatchingConfig.OperandsFullMatch, st_of)
    c._set_info("assembly_style", DisassStyle.intel if st_style_intel else DisassStyle.att)
    c._set_info("valid_addr_range", _Range(st_lo, st_hi) if st_range else None)
    c._set_info("sections", list(st_sections))
    return c

class _Range:
    """stands for a ValidAddrRange built from numerals with these values (the numerals themselves are C18's subject)"""
    def __init__(self, lo, hi):
        self.lo, self.hi = lo, hi

_real_VAR = gd.ValidAddrRange
class _VAR:
    def __init__(self, min_addr, max_addr):
        self.lo, self.hi = min_addr, max_addr
gd.ValidAddrRange = _VAR

def _state(c):
    r = c.get_info("valid_addr_range")
    return (
        c.get_info(PartialMatchingConfig.MnemonicsFullMatch),
        c.get_info(PartialMatchingConfig.OperandsFullMatch),
        c.get_info("assembly_style"),
        None if r is None else (r.lo, r.hi),
        None if c.get_info("sections") is None else list(c.get_info("sections")),
        sorted(str(k) for k in c.global_info.keys()),
    )

def _cfg(has_mf, mf, has_of, of, style_kind, has_range, lo, hi, has_sections, sections):
    d = {}
    if has_mf:
        d["mnemonics-full-match"] = mf
    if has_of:
        d["operands-full-match"] = of
    if style_kind == 1:
        d["style"] = "att"
    elif style_kind == 2:
        d["style"] = "intel"
    elif style_kind == 3:
        d["style"] = "bogus"
    if has_range:
        d["valid_addr_range"] = {"min": lo, "max": hi}
    if has_sections:
        d["sections"] = list(sections)
    return d
'''

STEP = '''def load_step(st_mf: bool, st_of: bool, st_style_intel: bool, st_range: bool, st_lo: int, st_hi: int, st_nsec: int,
              has_mf: bool, mf: bool, has_of: bool, of: bool, style_kind: int, has_range: bool, lo: int, hi: int, has_sections: bool, nsec: int) -> bool:
    """
    pre: 0 <= style_kind <= 3 and 0 <= st_nsec <= 2 and 0 <= nsec <= 2
    post: _
    """
    # section names are only stored, never inspected: their number is symbolic, their text is not
    st_sections = [".a", ".b"][:st_nsec]
    sections = [".c", ".d"][:nsec]
    cfg = _cfg(has_mf, mf, has_of, of, style_kind, has_range, lo, hi, has_sections, sections)
    c = _fill(st_mf, st_of, st_style_intel, st_range, st_lo, st_hi, st_sections)
    c.load_config(cfg)
    got = _state(c)
    JASMConfig._instance = None
    f = JASMConfig()
    f.load_config(cfg)
    return got == _state(f)
'''

RULES = [
    {"pattern": ["mov", {"call": ["a"]}]},
    {"config": {"mnemonics-full-match": True}, "pattern": ["mov", {"call": ["a"]}]},
    {"config": {"operands-full-match": True, "mnemonics-full-match": True}, "pattern": [{"mov": ["a", "b"]}]},
    {"config": {"sections": [".text", ".plt"]}, "pattern": ["mov"]},
    {"config": {"valid_addr_range": {"min": "0x10", "max": "ff"}}, "pattern": [{"call": ["valid_addr"]}]},
    {"config": {"style": "att"}, "pattern": [{"mov": ["&x"]}, {"add": ["&x", "&y"]}, "&i", "&i"]},
    {"macros": [{"name": "@m", "pattern": [{"$or": ["mov", "add"]}]}, {"name": "@z", "args": ["p"], "pattern": [{"xor": ["p", "p"]}]}], "pattern": ["@m", {"@z": None, "p": "rax"}, {"@z": None, "p": "rbx"}]},
    {"pattern": [{"mov": ["&genreg.64"]}, {"add": ["&genreg.32"]}, {"$not": ["ret"], "times": {"min": 0, "max": 2}}]},
    # a second sections rule and a second range rule: DIFFERENT values of an option an earlier rule also set
    {"config": {"sections": [".init"]}, "pattern": ["mov"]},
    {"config": {"valid_addr_range": {"min": "0x100", "max": "0x200"}}, "pattern": [{"call": ["valid_addr"]}]},
]

N_CH_RULES = len(RULES)   # the CrossHair rule steps use the rules above; the histories below use these and more

RULES += [
    # operand-level $not nested in an operator, then instruction-level $not in another rule
    {"pattern": [{"mov": [{"$or": [{"$not": ["rcx"]}, "rdx"]}, "rbx"]}]},
    {"pattern": [{"$not": ["call"]}, "call"]},
    {"pattern": ["add", {"$not": ["xor"], "times": 2}]},
    # two register captures, registered in different orders by different rules
    {"pattern": [{"mov": ["&genreg-a.64", "&genreg-b.64"]}, {"add": ["&genreg-a.64", "&genreg-b.64"]}]},
    {"pattern": [{"mov": ["&genreg-b.64", "&genreg-a.64"]}, {"add": ["&genreg-b.64", "&genreg-a.64"]}]},
    # an operation that FAILS after the listing was consumed (regex.error at match time)
    {"pattern": ["mov("]},
    # extra macro files (the first file is shared between two rules; a library file whose content differs at the same path)
    {"_extra": [["regs.yaml", [{"name": "@x", "pattern": "mov"}]], ["wild.yaml", [{"name": "@y", "pattern": "add"}]]], "pattern": ["@x", "@y"]},
    {"_extra": [["regs.yaml", [{"name": "@x", "pattern": "mov"}]]], "macros": [{"name": "@y", "pattern": "xor"}], "pattern": ["call", "@y"]},
    {"_extra": [["lib.yaml", [{"name": "@imm", "pattern": "mov"}]]], "pattern": ["@imm", "add"]},
    {"_extra": [["lib.yaml", [{"name": "@imm", "pattern": "xor"}]]], "pattern": ["@imm", "xor"]},
    {"_extra": [["regs.yaml", [{"name": "@x", "pattern": "mov"}]]], "pattern": ["@x", "@y"]},   # @y undefined: must fail every time
    # the same macro NAME and invocation as rule 6, another body (nothing about a macro outlives its rule)
    {"macros": [{"name": "@z", "args": ["p"], "pattern": [{"mov": ["p", "p"]}]}], "pattern": [{"@z": None, "p": "rax"}, "add"]},
    # a config that is rejected (sections must be a list) after its first option was already read: must fail every time and
    # must not change what the next operation sees
    {"config": {"mnemonics-full-match": False, "sections": ".text"}, "pattern": ["mov"]},
    # one library macro with two formal parameters: invoked with both arguments, with one only, and bare (an argument that
    # is not supplied stays the formal's own text - whatever an earlier invocation in the process supplied)
    {"_extra": [["argl.yaml", [{"name": "@ld", "args": ["pa", "pb"], "pattern": [{"mov": ["pa", "pb"]}]}]]], "pattern": [{"@ld": None, "pa": "rax", "pb": "rbx"}, "add"]},
    {"_extra": [["argl.yaml", [{"name": "@ld", "args": ["pa", "pb"], "pattern": [{"mov": ["pa", "pb"]}]}]]], "pattern": [{"@ld": None, "pa": "rax"}, "add"]},
    {"macros": [{"name": "@ld", "args": ["pa", "pb"], "pattern": [{"mov": ["pa", "pb"]}]}], "pattern": ["@ld", "add"]},
    # rule text with YAML scalars whose reading depends on the loader (unquoted hex / octal-looking / boolean-looking names)
    {"_yaml": "pattern:\n  - mov: [0x28, '%rbx']\n  - add: [010, yes]\n"},
]

PRE_RULES = PRE + '''
import jasm.jasm_regex.yaml2regex as _y
from jasm.jasm_regex.yaml2regex import Yaml2Regex
from jasm.match import MasterOfPuppets
from jasm.stringify_asm.implementations.gnu_objdump.gnu_objdump_disassembler import GNUObjdumpDisassembler
from jasm.consumer import CompleteConsumer
from jasm.matched_observers import MatchedObserver
from jasm.global_definitions import Instruction, MatchingSearchMode
import copy as _copy
RULES = %r
gd.ValidAddrRange = _real_VAR

class _R2:
    def __init__(self, lo, hi):
        self.lo, self.hi = lo, hi

def _fill2(st_mf, st_of, st_style_intel, st_range, st_sections):
    JASMConfig._instance = None
    c = JASMConfig()
    c._set_info(PartialMatchingConfig.MnemonicsFullMatch, st_mf)
    c._set_info(PartialMatchingConfig.OperandsFullMatch, st_of)
    c._set_info("assembly_style", DisassStyle.intel if st_style_intel else DisassStyle.att)
    c._set_info("valid_addr_range", _real_VAR("0x1", "0x2") if st_range else None)
    c._set_info("sections", list(st_sections))
    return c

def _operation(k):
    """compile rule k and compute everything the singleton influences"""
    doc = _copy.deepcopy(RULES[k])
    _y.Yaml2Regex.load_file = staticmethod(lambda file: doc)
    y = Yaml2Regex("rule.yaml")
    rgx = y.produce_regex()
    mop = MasterOfPuppets.__new__(MasterOfPuppets)
    mop.global_config = JASMConfig()
    obs = [type(o).__name__ for o in mop.prepare_observers()]
    r = JASMConfig().get_info("valid_addr_range")
    flags = list(GNUObjdumpDisassembler(JASMConfig().get_info("assembly_style")).flags)
    # what the observers of THIS operation do to two direct calls (one target inside rule 4's range only, one inside rule 9's)
    cons = CompleteConsumer("r", MatchedObserver(), MatchingSearchMode.first_find, False)
    for o in mop.prepare_observers():
        cons.add_observer(o)
    seen = []
    for tgt in ("20", "0x150"):
        g = cons._process_instruction(Instruction("1", "call", [tgt]))
        seen.append(None if g is None else list(g.operands))
    return (rgx, obs, None if r is None else (r.min.hex, r.max.hex), flags, seen)
''' % (RULES[:N_CH_RULES],)


def rule_step(k):
    return f'''def rule_step_{k}(st_mf: bool, st_of: bool, st_style_intel: bool, st_range: bool, st_nsec: int) -> bool:
    """
    pre: 0 <= st_nsec <= 2
    post: _
    """
    _fill2(st_mf, st_of, st_style_intel, st_range, [".a", ".b"][:st_nsec])
    got = _operation({k})
    JASMConfig._instance = None
    JASMConfig()
    return got == _operation({k})
'''


def rule_after(k):
    """state OUTSIDE the singleton (class attributes, caches, default arguments): one arbitrary earlier complete operation of
    the library, then the operation under test, compared with the same operation on a fresh singleton"""
    earlier = "".join(f"    {'if' if j == 0 else 'elif'} other == {j}:\n        _operation({j})\n" for j in range(N_CH_RULES))
    return f'''def rule_after_{k}(other: int, twice: bool) -> bool:
    """
    pre: 0 <= other < {N_CH_RULES}
    post: _
    """
    JASMConfig._instance = None
    JASMConfig()
{earlier}    if twice:
        _operation({k})
    got = _operation({k})
    # FRESH[k] was computed by running this operation FIRST in a fresh interpreter (see fresh_values): an in-process
    # "fresh singleton" would share whatever the earlier operation left outside the singleton
    return got == FRESH[{k}]
'''


def fresh_values():
    """_operation(k) for every library rule, each evaluated first in its own fresh interpreter -> source text of FRESH"""
    import concurrent.futures as cf

    def one(k):
        code = ch.PRELUDE + PRE_RULES + f"\nJASMConfig._instance = None\nJASMConfig()\nprint('FRESH-VALUE', repr(_operation({k})))\n"
        p = subprocess.run([ch.PY, "-c", code], capture_output=True, text=True, timeout=120)
        for line in p.stdout.splitlines():
            if line.startswith("FRESH-VALUE "):
                return line[len("FRESH-VALUE "):]
        raise RuntimeError(f"fresh value of rule {k}: {p.stderr[-400:]}")

    with cf.ThreadPoolExecutor(8) as ex:
        vals = list(ex.map(one, range(N_CH_RULES)))
    return "\nFRESH = [" + ", ".join(vals) + "]\n"


SIG = "st_mf: bool, st_of: bool, st_style_intel: bool, st_range: bool, st_lo: int, st_hi: int, st_nsec: int"
FILL = 'c = _fill(st_mf, st_of, st_style_intel, st_range, st_lo, st_hi, [".a", ".b"][:st_nsec])'
FRESH = """got = _state(c)
    JASMConfig._instance = None
    f = JASMConfig()
    f._set_info(PartialMatchingConfig.MnemonicsFullMatch, False); f._set_info(PartialMatchingConfig.OperandsFullMatch, False)
    f._set_info("assembly_style", DisassStyle.att); f._set_info("valid_addr_range", None); f._set_info("sections", [])
"""


def loader_step(name, extra_sig, pre, cfg_expr, keys):
    """one _load_* function from an arbitrary pre-state: the keys it owns end up as from a fresh singleton, all other keys untouched"""
    return f'''def {name}({SIG}, {extra_sig}) -> bool:
    """
    pre: 0 <= st_nsec <= 2{" and " + pre if pre else ""}
    post: _
    """
    cfg = {cfg_expr}
    {FILL}
    before = _state(c)
    c.{name}(cfg)
    got = _state(c)
    JASMConfig._instance = None
    f = JASMConfig()
    f.{name}(cfg)
    fresh = _state(f)
    owned = {keys}
    return all((got[i] == fresh[i]) if i in owned else (got[i] == before[i]) for i in range(5))
'''


def harnesses(t):
    T = 90 if t == "quick" else 400
    hs = []
    hs.append(ch.H("c14/_load_full_match_options", loader_step("_load_full_match_options", "has_mf: bool, mf: bool, has_of: bool, of: bool", "", '_cfg(has_mf, mf, has_of, of, 0, False, 0, 0, False, [])', "(0, 1)"), timeout=T, prelude=PRE, key="load_config_step"))
    hs.append(ch.H("c14/_load_assembly_style", loader_step("_load_assembly_style", "style_kind: int", "0 <= style_kind <= 3", '_cfg(False, False, False, False, style_kind, False, 0, 0, False, [])', "(2,)"), timeout=T, prelude=PRE, key="load_config_step"))
    hs.append(ch.H("c14/_load_valid_addr_range", loader_step("_load_valid_addr_range", "has_range: bool, lo: int, hi: int", "", '_cfg(False, False, False, False, 0, has_range, lo, hi, False, [])', "(3,)"), timeout=T, prelude=PRE, key="load_config_step"))
    hs.append(ch.H("c14/_load_sections", loader_step("_load_sections", "has_sections: bool, nsec: int", "0 <= nsec <= 2", '_cfg(False, False, False, False, 0, False, 0, 0, has_sections, [".c", ".d"][:nsec])', "(4,)"), timeout=T, prelude=PRE, key="load_config_step"))
    # load_config = all four loaders: which keys are present is symbolic, the values are fixed
    hs.append(ch.H("c14/load_config", f'''def load_config({SIG}, has_mf: bool, has_of: bool, style_kind: int, has_range: bool, has_sections: bool) -> bool:
    """
    pre: 0 <= st_nsec <= 2 and 0 <= style_kind <= 3
    post: _
    """
    cfg = _cfg(has_mf, True, has_of, True, style_kind, has_range, 16, 255, has_sections, [".c"])
    {FILL}
    c.load_config(cfg)
    got = _state(c)
    JASMConfig._instance = None
    f = JASMConfig()
    f.load_config(cfg)
    return got == _state(f)
''', timeout=T, prelude=PRE, key="load_config_step", note="arbitrary singleton pre-state x every subset of config keys"))
    fresh_src = fresh_values()
    for k in range(N_CH_RULES):
        hs.append(ch.H(f"c14/rule_step/{k}", rule_step(k), timeout=T, prelude=PRE_RULES, key="rule_step", note=f"rule {k}: regex, observers, range, objdump flags from an arbitrary pre-state == fresh"))
        hs.append(ch.H(f"c14/rule_after/{k}", rule_after(k), timeout=T, prelude=PRE_RULES + fresh_src, key="rule_after", note=f"rule {k} after an arbitrary earlier library operation (symbolic choice), optionally repeated == fresh",
                       probe=[f"rule_after_{k}({j}, False)" for j in range(N_CH_RULES)]))
    return hs


# ------------------------------------------------------------------ state inventory + pairwise histories (validation)
OP_SCRIPT = r'''
import sys, json, os, tempfile, yaml, logging
sys.path.insert(0, sys.argv[1])
logging.disable(logging.CRITICAL)
from jasm.global_definitions import MatchConfig, MatchingReturnMode, MatchingSearchMode
from jasm.match import MasterOfPuppets
rules = json.loads(sys.argv[2]); seq = json.loads(sys.argv[3]); listings = json.loads(sys.argv[4])
out = []
with tempfile.TemporaryDirectory(prefix="jasmverif_") as d:
    a = os.path.join(d, "in.s"); open(a, "w").write(listings[0]); current = 0
    for k in seq:
        if isinstance(k, list):
            # [rule, listing variant]: the input file is REWRITTEN at the same path (same size) between two operations
            k, v = k
            if v != current:
                st = os.stat(a); open(a, "w").write(listings[v]); os.utime(a, (st.st_atime, st.st_mtime)); current = v
        elif current != 0:
            st = os.stat(a); open(a, "w").write(listings[0]); os.utime(a, (st.st_atime, st.st_mtime)); current = 0
        rule = dict(rules[k])
        extra = rule.pop("_extra", None)
        raw = rule.pop("_yaml", None)
        p = os.path.join(d, "r%d.yaml" % k); open(p, "w").write(raw if raw is not None else yaml.safe_dump(rule, sort_keys=False))
        mpaths = None
        if extra:
            mpaths = []
            for name, macros in extra:
                mp = os.path.join(d, name)          # same name => same path (a library file edited between operations)
                text = yaml.safe_dump({"macros": macros}, sort_keys=False)
                if not os.path.exists(mp) or open(mp).read() != text:
                    open(mp, "w").write(text)      # only rewritten when the content really changes
                mpaths.append(mp)
        try:
            m = MasterOfPuppets(MatchConfig(pattern_pathstr=p, input_file=a, return_mode=MatchingReturnMode.matched_addrs_list, matching_mode=MatchingSearchMode.all_finds, macros=mpaths))
            full = m.perform_matching()
            again = m.perform_matching()      # the same object once more: same answer
            if again != full:
                full = ["SECOND RUN OF THE SAME OBJECT DIFFERS", full, again]
            m2 = MasterOfPuppets(MatchConfig(pattern_pathstr=p, input_file=a, return_only_address=True, return_mode=MatchingReturnMode.matched_addrs_list, matching_mode=MatchingSearchMode.all_finds, macros=mpaths))
            addrs = m2.perform_matching()
            m3 = MasterOfPuppets(MatchConfig(pattern_pathstr=p, input_file=a, return_mode=MatchingReturnMode.matched_addrs_list, matching_mode=MatchingSearchMode.first_find, macros=mpaths))
            first = m3.perform_matching()
            out.append([m.regex_rule, full, addrs, first])
        except Exception as e:
            out.append(["EXC", type(e).__name__ + ": " + str(e)])
print("RESULT " + json.dumps(out))
'''

LISTING = "\n".join([
    "0000000000001000 <f>:",
    "    1000:\t48 89 c3             \tmov    %rax,%rbx",
    "    1003:\t48 01 c3             \tadd    %rax,%rbx",
    "    1006:\te8 15 00 00 00       \tcall   20 <g>",
    "    100b:\t48 31 c0             \txor    %rax,%rax",
    "    100e:\t48 31 db             \txor    %rbx,%rbx",
    "    1011:\t48 89 c3             \tmov    %rax,%rbx",
    "    1014:\t48 89 c3             \tmov    %rax,%rbx",
    "    1017:\tc3                   \tret",
]) + "\n"


# the same listing with the two leading instructions exchanged for others of the same length (a patched input, same size)
LISTING_B = LISTING.replace("\tmov    %rax,%rbx\n    1003:\t48 01 c3             \tadd    %rax,%rbx", "\txor    %rax,%rbx\n    1003:\t48 01 c3             \tsub    %rax,%rbx", 1)
assert len(LISTING_B) == len(LISTING) and LISTING_B != LISTING


def run_ops(seq):
    p = subprocess.run([ch.PY, "-c", OP_SCRIPT, common.SRC, json.dumps(RULES), json.dumps(seq), json.dumps([LISTING, LISTING_B])], capture_output=True, text=True, timeout=120)
    for line in p.stdout.splitlines():
        if line.startswith("RESULT "):
            return json.loads(line[7:])
    raise RuntimeError(p.stderr[-500:])


def snapshot():
    """structural snapshot of module-level and class-level state of jasm.*"""
    import enum

    snap = {}
    for name, mod in sorted(sys.modules.items()):
        if not (name == "jasm" or name.startswith("jasm.")) or mod is None:
            continue
        for k, v in sorted(vars(mod).items()):
            if k.startswith("__") or isinstance(v, (types.ModuleType, types.FunctionType)):
                continue
            if isinstance(v, type):
                if getattr(v, "__module__", "") != name:
                    continue
                if issubclass(v, enum.Enum):
                    continue
                for ck, cv in sorted(vars(v).items()):
                    if ck.startswith("__") or callable(cv) or isinstance(cv, (property, staticmethod, classmethod)):
                        continue
                    if ck in ("_abc_impl",):
                        continue
                    snap[f"{name}.{k}.{ck}"] = repr(cv)[:300]
            elif isinstance(v, (str, int, float, bool, tuple, list, dict, set, type(None))):
                snap[f"{name}.{k}"] = repr(v)[:300]
    return snap


def inventory_and_pairs(run):
    from vlib import jasmapi

    jasmapi.run_pipeline(RULES[0], LISTING)  # make sure everything is imported
    before = snapshot()
    for r in RULES[:N_CH_RULES]:
        try:
            jasmapi.run_pipeline(copy.deepcopy(r), LISTING)
        except Exception:
            pass
    after = snapshot()
    changed = sorted(k for k in set(before) | set(after) if before.get(k) != after.get(k))
    allowed = [k for k in changed if ".JASMConfig." in k or k.endswith(".logger") or "logging" in k]
    unexpected = [k for k in changed if k not in allowed]
    run.coverage_extra["state_inventory"] = {"objects_snapshotted": len(after), "changed": changed, "outside_state_vector": unexpected}
    if unexpected:
        run.inconc(f"state vector incomplete: {unexpected} changed while running the rule library (pairwise histories below decide whether it is observable)")
    # pairwise histories vs fresh process
    n = len(RULES)
    fresh = [run_ops([k])[0] for k in range(n)]
    # the three ways of asking within ONE operation agree (what a result cache keyed too coarsely would break)
    for k, fr in enumerate(fresh):
        if fr[0] == "EXC":
            continue
        _rx, full, addrs, first = fr
        run.count("traces_validated_against_impl")
        if addrs != [x.split("::", 1)[0] for x in full] or first != full[:1]:
            run.failure("history/MODES-WITHIN-OPERATION", f"rule {k}: full texts {full}, addresses-only {addrs}, first-match {first} asked one after the other in one process disagree", {"kind": "history", "seq": [k], "rules": RULES})
    bad = 0
    import concurrent.futures as cf

    seqs = [[i, j] for i in range(n) for j in range(n)]
    triples = [[i, j, i] for i in range(n) for j in range(n) if i != j]
    failing = [k for k in range(n) if fresh[k][0] == "EXC"]
    seqs += [t for idx, t in enumerate(triples) if idx % (7 if tier() == "quick" else 1) == 0 or t[1] in failing]  # A, failing B, A: always
    # matcher objects constructed FIRST and run afterwards (each must be compiled and run with its own options)
    from vlib import jasmapi as _japi

    docs = [RULES[k] for k in (1, 0, 2, 0)]
    got = _japi.constructed_first_results([{kk: vv for kk, vv in d_.items() if not kk.startswith("_")} for d_ in docs], LISTING)
    want = [[x.split("::", 1)[0] for x in fresh[k][1]] for k in (1, 0, 2, 0)] + [[x.split("::", 1)[0] for x in fresh[1][1]]]
    run.count("traces_validated_against_impl")
    if got != want:
        run.failure("history/CONSTRUCTED-FIRST", f"rules 1, 0, 2, 0 constructed first and run afterwards (rule 1 run twice): {got}, each run first in a fresh process: {want}", {"kind": "history", "seq": [1, 0, 2, 0], "rules": RULES})
    # the input file changes (same path, same size, same mtime) between two operations with the same rule
    fresh_b = {k: run_ops([[k, 1]])[0] for k in (0, 3, 5, 6)}
    seqs_b = [[[k, v0], [k, v1]] for k in fresh_b for v0, v1 in ((0, 1), (1, 0))] + [[[k, 0], [k, 1], [k, 0]] for k in fresh_b]
    with cf.ThreadPoolExecutor(16) as ex:
        results = list(ex.map(run_ops, seqs))
        results_b = list(ex.map(run_ops, seqs_b))
    for seq, res in zip(seqs_b, results_b):
        run.count("traces_validated_against_impl")
        k, v = seq[-1]
        want = fresh_b[k] if v == 1 else fresh[k]
        if res[-1] != want:
            run.failure("history/INPUT-REWRITTEN", f"rule {k} on listing variant {v} after {seq[:-1]} (same path, rewritten in place) gives {str(res[-1])[:200]} but {str(want)[:200]} in a fresh process", {"kind": "history", "seq": seq, "rules": RULES})
    for seq, res in zip(seqs, results):
        run.count("traces_validated_against_impl")
        last = seq[-1]
        if res[-1] != fresh[last]:
            bad += 1
            run.failure("history/PAIR", f"operation {last} after {seq[:-1]} gives {str(res[-1])[:200]} but {str(fresh[last])[:200]} in a fresh process", {"kind": "history", "seq": seq, "rules": RULES})
    run.coverage_extra["histories_compared_with_fresh_process"] = len(seqs)


def main():
    run = Run("C14", "model_checking", "CH")
    hs = harnesses(tier())
    ch.run_harnesses(run, hs)
    inventory_and_pairs(run)
    cov = {
        "states": len(hs),
        "transitions": run.counts.get("harness_runs", 0),
        "traces_validated_against_impl": run.counts.get("traces_validated_against_impl", 0),
        "explanation": "states = CrossHair conditions: one inductive step from a SYMBOLIC singleton pre-state (two flags, style, range present/absent, <=2 sections) for an arbitrary config document, and per library rule (regex, observers, range, objdump flags) with one arbitrary earlier operation; traces = ordered pairs (and triples in thorough) of complete compile-and-match operations compared with the same operation run first in a fresh process",
        "confirmed_over_all_paths": run.counts.get("ch:confirmed", 0),
        "rule_library": RULES,
        "functions_encoded": ["JASMConfig.load_config/_load_*", "Yaml2Regex.__init__/_load_config/produce_regex", "MasterOfPuppets.prepare_observers", "GNUObjdumpDisassembler.__init__"],
        "source_hashes": common.file_hashes(["src/jasm/global_definitions.py", "src/jasm/jasm_regex/yaml2regex.py", "src/jasm/match.py", "src/jasm/stringify_asm/implementations/gnu_objdump/gnu_objdump_disassembler.py", "src/jasm/jasm_regex/tree_generators/capture_manager.py"]),
    }
    return run.finish(cov, ["the process state that can influence a result is the JASMConfig singleton (validated by the state inventory and the pairwise histories, not proved)", "Yaml2Regex.load_file is stubbed to return the rule document (file reading is outside symbolic reach)"])


def replay(rec):
    if rec.get("kind") == "history":
        seq = rec["seq"]
        res = run_ops(seq)
        fresh = run_ops([seq[-1]])[0]
        print("in history:", str(res[-1])[:300])
        print("fresh     :", str(fresh)[:300])
        return 0 if res[-1] == fresh else 1
    return ch.replay_record(rec)


if __name__ == "__main__":
    sys.exit(main())
