"""C05: capture groups — RX with bounded back-reference expansion over a finite capture domain."""
import sys

from vlib import common, lemmas
from vlib.common import Run, seed, tier
from checks import templates as T
from checks.rxprops import ASSUME

FILES = [
    "src/jasm/jasm_regex/tree_generators/capture_manager.py",
    "src/jasm/jasm_regex/tree_generators/capture_group_index.py",
    "src/jasm/jasm_regex/tree_generators/pattern_node_type_builder/capture_group_interface.py",
    "src/jasm/jasm_regex/tree_generators/pattern_node_type_builder/capture_group_builders.py",
    "src/jasm/jasm_regex/tree_generators/pattern_node_type_builder/special_register_capture_group_type_builder.py",
    "src/jasm/jasm_regex/tree_generators/pattern_node_implementations/capture_group/capture_group_register.py",
    "src/jasm/global_definitions.py",
]


def main():
    run = Run("C05", "translation_validation", "RX")
    tpls = T.gamma5(tier(), seed())
    results = lemmas.run_templates(run, tpls)
    from vlib import ch
    from checks import leafharness

    # group numbers are per compilation: two rules that register the same capture names in different orders
    seq_items = [
        ("a_then_b", {"pattern": [{"mov": ["&genreg-a.64", "&genreg-b.64"]}, {"push": ["&genreg-a.64"]}, {"push": ["&genreg-b.64"]}]}, None),
        ("b_then_a", {"pattern": [{"mov": ["&genreg-b.64", "&genreg-a.64"]}, {"push": ["&genreg-a.64"]}, {"push": ["&genreg-b.64"]}]}, None),
        ("operands_xy", {"pattern": [{"mov": ["&x", "&y"]}, {"push": ["&y"]}, "&i", "&i"]}, None),
        ("operands_yx", {"pattern": [{"mov": ["&y", "&x"]}, "&i", {"push": ["&y"]}, "&i"]}, None),
    ]
    lemmas.sequence_invariance(run, seq_items, "capture_numbering")
    hs = leafharness.c05_leaves(tier())
    ch.run_harnesses(run, hs)
    envs = sum(max(1, len([o for o in r["obl"] if o["lemma"] == "AEM"]) // 2) for r in results)
    cov = {
        "programs": len(tpls),
        "capture_bindings_expanded": envs,
        "disagreements_checked": run.counts.get("disagreements_replayed", 0),
        "rule": "programs = capture templates (operand / instruction / register-family, 1-3 names, every order of first use, later occurrences on the spine, in $or, in $not, repeated); for each binding g in the finite capture domain the regex R[g] (capture i := literal g_i, \\\\i := literal g_i) is compared with Spec[g] for every listing",
        "bounds": {"capture_domain_operand": T.D_OP if tier() == "thorough" else T.D_OP_QUICK, "names": "<=3", "listing_length": "unbounded", "register_templates_domain": "operand fields restricted to x86-64 GPR names / small immediates"},
        "source_hashes": common.file_hashes(FILES),
    }
    return run.finish(cov, ASSUME + [
        "back-references are decided by bounded expansion: the claim is 'for every capture value in the stated finite domain and every listing', not for every capture value (z3 has no back-references; non-ground regexes were found unsound)",
        "replay runs the real engine with the real back-references",
    ])


if __name__ == "__main__":
    sys.exit(main())
