"""C09: operands reach patterns in a fixed normal form.
  * per-operand rewrite: CrossHair on the real OperandsParser._process_operand_elem, one harness per AT&T form and
    per tuple of part lengths (parts are symbolic strings free of '(', ')', ',');
  * splitting: the real split regex of LineParser.get_splitted_operands (read from the source) as a language lemma
    over the operand-list grammar: split points are exactly the separator commas (LX, z3).
"""
import ast
import inspect
import itertools
import re
import sys

import z3

from vlib import ch, common, lx, lx_grammar as G, rx
from vlib.common import Run, seed, tier
from vlib.rx import comp, inter

PRE = '''
import jasm.stringify_asm.implementations.gnu_objdump.asm_manual_parser_w_regex as _ap
from jasm.stringify_asm.implementations.gnu_objdump.asm_manual_parser_w_regex import OperandsParser, LineParser

def _plain(s: str) -> bool:
    return "(" not in s and ")" not in s and "," not in s

def _norm(s: str) -> str:
    return OperandsParser([])._process_operand_elem(s)
'''

# int() on a symbolic string makes CrossHair enumerate numerals; the pass-through forms do not depend on WHAT int()
# answers, so it is replaced by a stub whose outcome is a harness argument (every behaviour of int is covered).
PRE_INTSTUB = PRE + '''
_INT_OUTCOME = [False, False]
class _IntStub:
    def __call__(self, x, base=10):
        ok = _INT_OUTCOME[0] if base == 10 else _INT_OUTCOME[1]
        if ok:
            return 0
        raise ValueError("stub: not a numeral")
_ap.int = _IntStub()
'''


PRE_INTSTUB_ANY = PRE_INTSTUB  # outcome flags stay at their default (not a numeral); see passthrough for both outcomes


def lens_pre(names, lens):
    return " and ".join(f"len({n}) == {l}" for n, l in zip(names, lens))


def plain_pre(names):
    return " and ".join(f"_plain({n})" for n in names)


def form(name, params, lens, expr_in, expr_out, timeout, extra_pre="", prelude=PRE, key=None, note=""):
    ps = ", ".join(f"{p}: str" for p in params)
    tag = "".join(str(l) for l in lens)
    pre2 = f"\n    pre: {extra_pre}" if extra_pre else ""
    src = f'''def {name}_{tag}({ps}) -> bool:
    """
    pre: {lens_pre(params, lens)}
    pre: {plain_pre(params)}{pre2}
    post: _
    """
    return _norm({expr_in}) == {expr_out}
'''
    return ch.H(f"c09/{name}/{tag}", src, timeout=timeout, prelude=prelude, key=key or f"norm_{name}", note=note)


def harnesses(t):
    hs = []
    T = 60 if t == "quick" else 240
    # k(a,b,c) -> [a+b*c+k]
    L4 = [(1, 1, 1, 1)] + ([(2, 1, 1, 1), (1, 2, 1, 1), (1, 1, 2, 1), (2, 2, 1, 1)] if t == "thorough" else [])
    for l in L4:
        hs.append(form("mem4", "kabc", l, 'k + "(" + a + "," + b + "," + c + ")"', '"[" + a + "+" + b + "*" + c + "+" + k + "]"', T, note="k(a,b,c)"))
    # k(,b,c) -> [+b*c+k]
    for l in [(1, 1, 1)] + ([(2, 2, 1), (3, 1, 1)] if t == "thorough" else []):
        hs.append(form("mem4_nobase", "kbc", l, 'k + "(," + b + "," + c + ")"', '"[+" + b + "*" + c + "+" + k + "]"', T, note="k(,b,c)"))
    # (a,b,c)d -> [a+b*c+d]  and  (a)d -> [a+d]   (AVX-512 decorations {%k1} / {1to16} are printed AFTER the parenthesis)
    for l in [(1, 1, 1, 1)] + ([(2, 2, 1, 2)] if t == "thorough" else []):
        hs.append(form("mem3_suffix", "abcd", l, '"(" + a + "," + b + "," + c + ")" + d', '"[" + a + "+" + b + "*" + c + "+" + d + "]"', T, note="(a,b,c)d"))
    for l in [(1, 1), (2, 2)]:
        hs.append(form("mem0_suffix", "ad", l, '"(" + a + ")" + d', '"[" + a + "+" + d + "]"', T, note="(a)d"))
    # (a,b,c) -> [a+b*c]
    for l in [(1, 1, 1), (2, 2, 1)] + ([(3, 3, 1), (2, 3, 1), (3, 2, 1)] if t == "thorough" else []):
        hs.append(form("mem3", "abc", l, '"(" + a + "," + b + "," + c + ")"', '"[" + a + "+" + b + "*" + c + "]"', T, note="(a,b,c)"))
    # k(a) -> [a+k]
    for l in [(1, 1), (2, 2), (3, 3)] + ([(1, 3), (3, 1), (4, 4), (4, 2)] if t == "thorough" else []):
        hs.append(form("mem1", "ka", l, 'k + "(" + a + ")"', '"[" + a + "+" + k + "]"', T, note="k(a)"))
    # (a) -> [a]
    for l in [(1,), (2,), (3,)] + ([(4,), (5,)] if t == "thorough" else []):
        hs.append(form("mem0", "a", l, '"(" + a + ")"', '"[" + a + "]"', T, note="(a)"))
    # $v -> v ; %r unchanged ; *%r unchanged
    for l in [(1,), (2,), (3,)] + ([(4,), (6,)] if t == "thorough" else []):
        hs.append(form("imm", "v", l, '"$" + v', "v", T, note="$v -> v"))
        hs.append(form("reg", "r", l, '"%" + r', '"%" + r', T, note="%r unchanged"))
        hs.append(form("indirect_reg", "r", l, '"*%" + r', '"*%" + r', T, prelude=PRE_INTSTUB_ANY, note="*%r unchanged (int() stubbed: always 'not a numeral' or a number, both explored)"))
    # anything else without parentheses (bare hex branch target, absolute address, seg:disp) is passed through,
    # whatever int() says about it
    for l in [(1,), (2,), (3,)] + ([(4,), (5,)] if t == "thorough" else []):
        name = "passthrough"
        tag = str(l[0])
        src = f'''def {name}_{tag}(s: str, isint: bool, ishex: bool) -> bool:
    """
    pre: len(s) == {l[0]} and _plain(s) and s != "*" and not s.startswith("$")
    post: _
    """
    _INT_OUTCOME[0] = isint
    _INT_OUTCOME[1] = ishex
    return _norm(s) == s
'''
        hs.append(ch.H(f"c09/{name}/{tag}", src, timeout=T, prelude=PRE_INTSTUB, key="norm_passthrough", note="bare target / absolute / other: unchanged; int() stubbed by a nondeterministic contract"))
    # 16-bit base+index pair k(a,b) / (a,b): must not make the parser fail (C08 'no line makes the parser fail')
    src = '''def pair4_111(k: str, a: str, b: str) -> bool:
    """
    pre: len(k) == 1 and len(a) == 1 and len(b) == 1
    pre: _plain(k) and _plain(a) and _plain(b)
    post: _
    """
    return _norm(k + "(" + a + "," + b + ")") == "[" + a + "+" + b + "+" + k + "]"
'''
    hs.append(ch.H("c09/pair4/111", src, timeout=T, prelude=PRE, key="norm_pair16", note="16-bit pair form disp(%bx,%si) -> [a+b+k], no exception"))
    src = '''def pair3_11(a: str, b: str) -> bool:
    """
    pre: len(a) == 1 and len(b) == 1
    pre: _plain(a) and _plain(b)
    post: _
    """
    return _norm("(" + a + "," + b + ")") == "[" + a + "+" + b + "]"
'''
    hs.append(ch.H("c09/pair3/11", src, timeout=T, prelude=PRE, key="norm_pair16", note="16-bit pair form (%bx,%si)"))
    # whole-instruction composition: parse() maps the list element-wise and keeps number and order
    src = '''def compose_3(x: str, y: str, z: str) -> bool:
    """
    pre: len(x) == 2 and len(y) == 2 and len(z) == 1
    pre: _plain(x) and _plain(y) and _plain(z)
    post: _
    """
    r = OperandsParser(["$" + x, "%" + y, "(" + z + ")"]).parse()
    return r == [x, "%" + y, "[" + z + "]"]
'''
    hs.append(ch.H("c09/compose/221", src, timeout=T, prelude=PRE, key="norm_compose", note="OperandsParser.parse keeps number and order"))
    return hs


# ------------------------------------------------------------------ splitting lemma (LX)
def split_regex_from_source():
    import jasm.stringify_asm.implementations.gnu_objdump.asm_manual_parser_w_regex as ap

    src = inspect.getsource(ap.LineParser.get_splitted_operands)
    tree = ast.parse("class _X:\n" + src if src.startswith("    ") else src)
    for node in ast.walk(tree):
        if isinstance(node, ast.Call) and isinstance(node.func, ast.Attribute) and node.func.attr == "split" and isinstance(node.func.value, ast.Name) and node.func.value.id == "re":
            a0 = node.args[0]
            if isinstance(a0, ast.Constant) and isinstance(a0.value, str):
                return a0.value
    raise rx.Unsupported("get_splitted_operands: re.split(<literal>, …) not found")


def split_lemmas(run):
    from jasm.stringify_asm.implementations.gnu_objdump.asm_manual_parser_w_regex import LineParser

    w = lx.world()
    ll = lx.LineLang(w)
    q = rx.Q(120000)
    try:
        text = split_regex_from_source()
        astn, _ = rx.parse(text)
        SP = ll.tr.lang(astn, w.ANY, w.colours, w.colours)  # strings that START with a split point
    except rx.Unsupported as e:
        run.harness_error(f"split regex not encodable: {e}")
        return
    run.coverage_extra["split_regex"] = text
    # operand list grammar: operands colour 0 (inner commas included), separator commas colour 1
    OPL = ll.seg([(0, G.OPND), (0, "(?:")][:1])  # first operand
    one = ll.seg([(0, G.OPND)])
    sep = w.lit(",", (1,))
    OPLIST = z3.Concat(one, z3.Loop(z3.Concat(sep, one), 0, 3))
    allc = w.colours
    comma_any = w.lit(",", allc)
    # (a) a separator comma that is NOT a split point
    qa = inter(OPLIST, z3.Concat(w.ANY, inter(z3.Concat(sep, w.ANY), comp(SP))))
    # (b) an inner comma that IS a split point
    qb = inter(OPLIST, z3.Concat(w.ANY, inter(z3.Concat(w.lit(",", (0,)), w.ANY), SP)))
    for name, r in (("separator-not-split", qa), ("inner-comma-split", qb)):
        v, wit = q.check(r)
        run.count(f"SPLIT:{v}")
        run.count("queries")
        if v == "sat":
            plain, cols = w.decode(wit)
            want, cur = [], ""
            for chx, c in zip(plain, cols):
                if chx == "," and c == 1:
                    want.append(cur)
                    cur = ""
                else:
                    cur += chx
            want.append(cur)
            got = LineParser.get_splitted_operands(plain)
            run.sample({"operands": plain, "intended_split": want, "real_split": got, "lemma": name})
            if got != want:
                run.count("disagreements_replayed")
                run.failure(f"split/{name}", f"operand list {plain!r}: real split {got} != {want}", {"kind": "split", "operands": plain, "want": want})
            else:
                run.harness_error(f"split lemma {name}: witness {plain!r} did not reproduce")
        elif v == "unknown":
            run.inconc(f"split lemma {name}: unknown")
    # translator validation: solver-chosen operand lists through the real splitter
    for i in range(3):
        v, wit = q.check(inter(OPLIST, z3.Concat(w.ANY, sep, w.ANY, w.lit("(", allc), w.ANY)) if i else OPLIST)
        if v == "sat":
            plain, cols = w.decode(wit)
            want = []
            cur = ""
            for chx, c in zip(plain, cols):
                if chx == "," and c == 1:
                    want.append(cur)
                    cur = ""
                else:
                    cur += chx
            want.append(cur)
            if LineParser.get_splitted_operands(plain) == want:
                run.count("traces_validated_against_impl")
            else:
                run.failure("split/validation", f"operand list {plain!r}: real split {LineParser.get_splitted_operands(plain)} != {want}", {"kind": "split", "operands": plain, "want": want})
    run.solver_s += q.wall


def file_route_table(run):
    """The property's own table, one listing line per form, through the WHOLE file route (a user's input is a file, not a
    line): what the pattern side receives is the normal form, whatever the line ends of the file are. Concrete validation."""
    from vlib import jasmapi

    table = [
        ("mov", "$0x10,%eax", ["0x10", "%eax"]), ("mov", "%rsp,%rbp", ["%rsp", "%rbp"]), ("mov", "-0x8(%rbp,%rax,4),%rcx", ["[%rbp+%rax*4+-0x8]", "%rcx"]),
        ("lea", "(%rax,%rax,2),%rax", ["[%rax+%rax*2]", "%rax"]), ("mov", "0x8(,%rbx,8),%rdx", ["[+%rbx*8+0x8]", "%rdx"]), ("mov", "0x10(%rsp),%rdi", ["[%rsp+0x10]", "%rdi"]),
        ("mov", "%rdi,(%rsi)", ["%rdi", "[%rsi]"]), ("call", "402000 <helper>", ["402000"]), ("jmp", "401010 <main+0x10>", ["401010"]), ("ret", "", [""]),
        ("imul", "$0x3,0x4(%r12,%r12,8),%r9d", ["0x3", "[%r12+%r12*8+0x4]", "%r9d"]), ("push", "%rbp", ["%rbp"]),
        ("push", "$0x10", ["0x10"]), ("ret", "$0x8", ["0x8"]), ("lea", "0x0(,%rax,8),%rdx", ["[+%rax*8+0x0]", "%rdx"]),
    ]
    lines = ["", "prog:     file format elf64-x86-64", "", "Disassembly of section .text:", "", "0000000000401000 <main>:"]
    want = ""
    for i, (m, ops, norm) in enumerate(table):
        a = format(0x401000 + 4 * i, "x")
        lines.append(f"  {a}:\t48 89 e5             \t{(m + ' ').ljust(7) + ops if ops else m}")
        want += f"{a}::{m},{','.join(norm)},|"
    for k, (m, ops, norm, b7, rest) in enumerate([("movq", "$0x1,0x100(%rsp)", ["0x1", "[%rsp+0x100]"], "48 c7 84 24 00 01 00", "00 01 00 00 00"), ("movq", "$0x2,0x100(%rsp)", ["0x2", "[%rsp+0x100]"], "48 c7 84 24 00 01 00", "00 02 00 00 00"),
                                            ("movabs", "$0x4000000000000000,%rax", ["0x4000000000000000", "%rax"], "48 b8 00 00 00 00 00", "00 00 40"), ("movabs", "$0x8000000000000000,%rax", ["0x8000000000000000", "%rax"], "48 b8 00 00 00 00 00", "00 00 80")]):
        a = format(0x402000 + 16 * k, "x")
        lines.append(f"  {a}:\t{b7} \t{(m + ' ').ljust(7) + ops}")
        lines.append(f"  {format(0x402000 + 16 * k + 7, 'x')}:\t{rest} ")
        want += f"{a}::{m},{','.join(norm)},|"
    for nm, text in (("LF", "\n".join(lines) + "\n"), ("CRLF", "\r\n".join(lines) + "\r\n"), ("no_final_newline", "\n".join(lines))):
        got = jasmapi.file_route_stream(text)
        if nm == "LF":
            # an address range that contains the immediates' VALUES but no branch target: operands are not reinterpreted
            got_r = jasmapi.file_route_stream(text, {"config": {"valid_addr_range": {"min": "0x0", "max": "0xff"}}, "pattern": ["zzzz"]})
            run.count("traces_validated_against_impl")
            if got_r != want:
                run.failure("file_route/with_addr_range", f"the operand table with config.valid_addr_range 0x0..0xff (no branch target inside): stream {got_r[:200]!r}... differs from the normal forms", {"kind": "c09_file", "variant": "with_addr_range"})
        run.count("traces_validated_against_impl")
        if got != want:
            k = next((i for i, (x, y) in enumerate(zip(got, want)) if x != y), min(len(got), len(want)))
            run.failure(f"file_route/{nm}", f"the property's operand table through the file route ({nm} line ends): stream differs at offset {k}: got {got[max(0, k - 30):k + 30]!r}, expected {want[max(0, k - 30):k + 30]!r}", {"kind": "c09_file", "variant": nm})


def main():
    run = Run("C09", "model_checking", "CH+LX")
    t = tier()
    split_lemmas(run)
    from checks import lxprops

    lxprops.sample_validation(run, "C09")   # whole lines through parse_line: operands == reference normal form
    file_route_table(run)
    lxprops.stream_context_probe(run, "file_route")   # operands of the CURRENT file, whatever ran before / whatever the rule's options
    lxprops.rare_shape_battery(run, "C09")   # rare but real operand shapes: operands are the reference normal form
    hs = harnesses(t)
    res = ch.run_harnesses(run, hs)
    conf = run.counts.get("ch:confirmed", 0)
    cov = {
        "states": len(hs) + run.counts.get("queries", 0),
        "transitions": run.counts.get("harness_runs", 0),
        "traces_validated_against_impl": run.counts.get("traces_validated_against_impl", 0) + run.counts.get("twin_refuted", 0),
        "explanation": "states = CrossHair conditions (one per operand form x tuple of part lengths; every character of every part is symbolic) + z3 split-lemma queries; transitions = crosshair processes run (harness + reachability twin)",
        "harnesses": len(hs),
        "confirmed_over_all_paths": conf,
        "not_confirmed": run.counts.get("ch:not_confirmed", 0),
        "functions_encoded": ["OperandsParser._process_operand_elem (+form_full_operand_with_4/3/1_element(s), parse_operand_types)", "OperandsParser.parse", "LineParser.get_splitted_operands (split regex as a language)"],
        "bounds": {"part_lengths": sorted({h.name.split("/")[-1] for h in hs}), "operands_per_list": "1-4", "per_condition_timeout_s": hs[0].timeout},
        "source_hashes": common.file_hashes(["src/jasm/stringify_asm/implementations/gnu_objdump/asm_manual_parser_w_regex.py"]),
    }
    return run.finish(cov, [
        "parts of an operand are strings free of '(' ')' ','; each harness instance fixes the length of every part (CrossHair does not terminate on free-length strings here); longer parts are outside the claim",
        "int() inside the pass-through harness is a nondeterministic contract stub (raises ValueError or returns a number, chosen by symbolic booleans)",
        "the operand-list grammar is the one validated for C08 (vlib/lx_grammar.py)",
    ])


def replay(rec):
    if rec.get("kind") == "lx":
        from checks import lxprops

        return lxprops.replay(rec)
    if rec.get("kind") == "c09_file":
        print("file-route table probe: re-run ./check C09;", rec.get("variant"))
        return 1
    if rec.get("kind") == "split":
        from jasm.stringify_asm.implementations.gnu_objdump.asm_manual_parser_w_regex import LineParser

        got = LineParser.get_splitted_operands(rec["operands"])
        print(rec["operands"], "->", got, "intended", rec["want"])
        return 0 if got == rec["want"] else 1
    return ch.replay_record(rec)


if __name__ == "__main__":
    sys.exit(main())
