"""CrossHair leaf lemmas that lift the enumerated template vocabulary to symbolic names / numbers
(C01 name parametricity, C02 quantifier text, C05 register-name assembly, C08 parser plumbing)."""
from vlib import ch

PRE_LEAF = '''
import builtins
import jasm.global_definitions as gd
from jasm.global_definitions import JASMConfig, PartialMatchingConfig, TimesType
import jasm.jasm_regex.tree_generators.pattern_node_implementations.mnemonic_and_operand.mnemonic_and_operand as mo
from jasm.jasm_regex.tree_generators.pattern_node_abstract import PatternNodeData
from jasm.jasm_regex.tree_generators.shared_context import SharedContext
from jasm.jasm_regex.tree_generators.capture_manager import CapturesManager
from jasm.jasm_regex.tree_generators.pattern_node_implementations.time_type_builder import TimesTypeBuilder

_HEXLIKE = [False]
class _IntMeta(type):
    def __instancecheck__(cls, x):
        return isinstance(x, builtins.int)
class _Int(metaclass=_IntMeta):
    """contract stub for int(s, 16) on a symbolic string: 'is a hex numeral' is a harness argument"""
    def __new__(cls, x, base=10):
        if base == 16:
            if _HEXLIKE[0] and len(x) > 0:
                return 0
            raise ValueError("not hex")
        return builtins.int(x, base)
mo.int = _Int

def _node(name, children=None):
    return PatternNodeData(name=name, times=TimesType(1, 1), children=children, parent=None, shared_context=SharedContext(capture_manager=CapturesManager()))

def _cfg(mfull, ofull):
    JASMConfig._instance = None
    c = JASMConfig()
    c.global_info[PartialMatchingConfig.OperandsFullMatch] = ofull
    c.global_info[PartialMatchingConfig.MnemonicsFullMatch] = mfull
'''


def c01_leaves(t):
    T = 60 if t == "quick" else 240
    hs = []
    for n in ([1, 2, 3] if t == "quick" else [1, 2, 3, 4, 5]):
        hs.append(ch.H(f"c01/operand_leaf/{n}", f'''def operand_leaf_{n}(name: str, full: bool, hexlike: bool) -> bool:
    """
    pre: len(name) == {n}
    post: _
    """
    _HEXLIKE[0] = hexlike
    _cfg(False, full)
    r = mo.PatternNodeOperand(_node(name)).get_regex()
    shown = name
    if name.endswith("h") and hexlike and len(name) > 1:
        shown = "0x" + name[:-1]          # the documented <hex>h rewriting (KNOWN finding for C01's literal reading)
    if full:
        return r == shown + ","
    return r == gd.IGNORE_NAME_PREFIX + shown + gd.IGNORE_NAME_SUFFIX
''', timeout=T, prelude=PRE_LEAF, key="leaf_operand", note="symbolic operand name: the fragment is PREFIX+name+SUFFIX / name+',' for EVERY name of this length"))
        hs.append(ch.H(f"c01/mnemonic_leaf/{n}", f'''def mnemonic_leaf_{n}(name: str, full: bool) -> bool:
    """
    pre: len(name) == {n}
    post: _
    """
    _cfg(full, False)
    r = mo.PatternNodeMnemonic(_node(name)).get_regex()
    body = (name + ",") if full else (gd.IGNORE_NAME_PREFIX + name + gd.IGNORE_NAME_SUFFIX)
    return r == gd.IGNORE_INST_ADDR + "(?:" + body + gd.SKIP_TO_END_OF_PATTERN_NODE + ")"
''', timeout=T, prelude=PRE_LEAF, key="leaf_mnemonic", note="symbolic mnemonic name"))
    return hs


def c02_leaves(t):
    T = 200 if t == "quick" else 600
    hi = 12 if t == "quick" else 40
    return [ch.H("c02/times_text", f'''def times_text(a: int, b: int) -> bool:
    """
    pre: 0 <= a <= b <= {hi}
    post: _
    """
    r = TimesTypeBuilder.get_min_max_regex(TimesType(a, b))
    if a == 1 and b == 1:
        return r is None
    if a == b:
        return r == "{{" + str(a) + "}}"
    return r == "{{" + str(a) + "," + str(b) + "}}"
''', timeout=T, prelude=PRE_LEAF, key="leaf_times_text", note=f"quantifier text for every pair 0 <= min <= max <= {hi}")] + [
        ch.H(f"c02/times_text_large/{base}", f'''def times_text_large_{base}(a: int, db: int, big_min: bool) -> bool:
    """
    pre: 0 <= a <= 6 and 0 <= db <= 8
    post: _
    """
    # large bounds are written out exactly like small ones (no cap, no rounding): windows just below / above {base}
    b = {base} - 4 + db
    lo = b - a if big_min else a
    r = TimesTypeBuilder.get_min_max_regex(TimesType(lo, b))
    if lo == b:
        return r == "{{" + str(lo) + "}}" or (lo == 1 and r is None)
    return r == "{{" + str(lo) + "," + str(b) + "}}"
''', timeout=T, prelude=PRE_LEAF, key="leaf_times_text", note=f"quantifier text around max = {base}") for base in (1000, 1024, 65536)]


PRE_REG = '''
from jasm.global_definitions import remove_access_suffix
from jasm.jasm_regex.tree_generators.pattern_node_implementations.capture_group.capture_group_register import PatternNodeCaptureGroupRegisterCall as _Call
'''


def c05_leaves(t):
    T = 60 if t == "quick" else 200
    hs = []
    hs.append(ch.H("c05/register_names", '''def register_names(fam: int, w: int, idx: str) -> bool:
    """
    pre: 0 <= fam <= 3 and 0 <= w <= 4 and len(idx) == 2
    post: _
    """
    famname = ("&genreg", "&indreg", "&stackreg", "&basereg")[fam] if False else None
    if fam == 0:
        famname = "&genreg"
    elif fam == 1:
        famname = "&indreg"
    elif fam == 2:
        famname = "&stackreg"
    else:
        famname = "&basereg"
    if w == 0:
        suffix, kind = "64", 0
    elif w == 1:
        suffix, kind = "32", 1
    elif w == 2:
        suffix, kind = "16", 2
    elif w == 3:
        suffix, kind = "8l", 3
    else:
        suffix, kind = "8h", 4
    name = famname + "-1." + suffix
    if fam == 0:
        want = ("r" + idx + "x", "e" + idx + "x", idx + "x", idx + "l", idx + "h")[kind] if False else None
        if kind == 0:
            want = "r" + idx + "x"
        elif kind == 1:
            want = "e" + idx + "x"
        elif kind == 2:
            want = idx + "x"
        elif kind == 3:
            want = idx + "l"
        else:
            want = idx + "h"
        return _Call.process_register_capture_group_name_genreg(name, idx) == want
    if kind == 4:
        return True   # no high-byte form outside the a/b/c/d family
    if fam == 1:
        if kind == 0:
            want = "r" + idx + "i"
        elif kind == 1:
            want = "e" + idx + "i"
        elif kind == 2:
            want = idx + "i"
        else:
            want = idx + "il"
        return _Call.process_register_capture_group_name_indreg(name, idx) == want
    if kind == 0:
        want = "r" + idx
    elif kind == 1:
        want = "e" + idx
    elif kind == 2:
        want = idx
    else:
        want = idx + "l"
    return _Call.process_register_capture_group_name_framereg(name, idx) == want
''', timeout=T, prelude=PRE_REG, key="leaf_register_names", note="register-name assembly around an arbitrary back-reference text, every family x width"))
    hs.append(ch.H("c05/remove_access_suffix", '''def suffix_round_trip(base: str, w: int) -> bool:
    """
    pre: len(base) == 4 and base[-1] != "." and 0 <= w <= 7
    post: _
    """
    if w == 0:
        sfx = "64"
    elif w == 1:
        sfx = "32"
    elif w == 2:
        sfx = "16"
    elif w == 3:
        sfx = "8h"
    elif w == 4:
        sfx = "8l"
    elif w == 5:
        sfx = "8H"
    elif w == 6:
        sfx = "8L"
    else:
        return remove_access_suffix("&" + base + ".xx") == "&" + base + ".xx"
    return remove_access_suffix("&" + base + "." + sfx) == "&" + base
''', timeout=T, prelude=PRE_REG, key="leaf_suffix", note="suffix stripping for an arbitrary capture name (the name may contain dots of its own)"))
    return hs


PRE_PARSER = '''
import jasm.stringify_asm.implementations.gnu_objdump.gnu_objdump_parser_manual as _pm
from jasm.stringify_asm.implementations.gnu_objdump.asm_manual_parser_w_regex import Label, Section
from jasm.global_definitions import Instruction

class _Rec:
    def __init__(self):
        self.got = []
    def consume_instruction(self, inst):
        self.got.append(inst)
    def finalize(self):
        self.got.append("FINALIZE")
'''


def c08_plumbing(t):
    T = 60 if t == "quick" else 200
    return [ch.H("c08/parser_plumbing", '''def parser_plumbing(k1: int, k2: int, k3: int, n: int) -> bool:
    """
    pre: 0 <= k1 <= 3 and 0 <= k2 <= 3 and 0 <= k3 <= 3 and 0 <= n <= 3
    post: _
    """
    def mk(k, i):
        if k == 0:
            return Instruction(str(i), "mov", ["a"])
        if k == 1:
            return Label(str(i), "f")
        if k == 2:
            return Section(".text")
        return "some other line"
    results = [mk(k1, 1), mk(k2, 2), mk(k3, 3)][:n]
    seen_lines = []
    def _fake_parse_file_lines(lines):
        seen_lines.append(list(lines))
        return results
    _pm.parse_file_lines = _fake_parse_file_lines
    rec = _Rec()
    text = "\\n".join("L%d" % i for i in range(n))
    _pm.ObjdumpParserManual().parse(text, rec)
    want = [r for r in results if isinstance(r, Instruction)]
    # every line reaches the classifier once, only Instructions are forwarded, in order, and parse() does not finalize
    return seen_lines == [text.split("\\n")] and rec.got == want
''', timeout=T, prelude=PRE_PARSER, key="parser_plumbing", note="symbolic kinds of 0-3 classified results: only Instructions are forwarded, in file order")]
