"""C08 / C10 / C16: line-classifier lemmas over the objdump line grammar G (LX engine).

One encoding, three property views:
  C08  every instruction line is handled by an instruction-producing cascade step, with group 1 = the
       address and group 2 = the first token; non-instruction lines are rejected by every such step.
  C10  the mnemonic / address / operand-token groups are free of the stream separators ',' '|' '::'.
  C16  the same extraction lemmas hold whatever the presentation parts of the line are, and when the
       raw-byte column is removed altogether.
"""
import re
import sys
import time

import z3

from vlib import common, lx, lx_grammar as G, rx
from vlib.common import Run, seed, tier
from vlib.rx import Unsupported, comp, inter

FILES = [
    "src/jasm/stringify_asm/implementations/gnu_objdump/asm_manual_parser_w_regex.py",
    "src/jasm/stringify_asm/implementations/gnu_objdump/gnu_objdump_parser_manual.py",
    "src/jasm/stringify_asm/implementations/observers.py",
    "src/jasm/consumer.py",
]

ASSUME = [
    "objdump line grammar G (vlib/lx_grammar.py) is the input domain; it is validated on every run against the sandbox's objdump on seeded random bytes in i386:x86-64 / i386 / i8086 modes and the repo's binaries (gaps are reported, not assumed away)",
    "alphabet: TAB + printable ASCII; lines contain no newline; symbol/comment text does not contain the substring 'data16'",
    "Python's re.match on the module's regex constants behaves as vlib/rx.py translates them (prefix match, greedy trailing group read as maximal munch because its continuation .*$ is universal); every witness is replayed through the real parse_line",
    "cascade order, constants and group->field wiring are recovered from the AST of LineParser on every run; unknown statement shapes make the run a harness error",
]

PREFIX_WORDS = {"lock", "rep", "repz", "repnz", "data16", "addr32", "addr16", "cs", "ds", "es", "fs", "gs", "ss", "notrack", "bnd", "xacquire", "xrelease"}


def intended(line, segs):
    """oracle: decomposition of a G line by Python re with one named group per coloured segment"""
    pat = "".join(f"(?P<c{c}>{t})" if c else f"(?:{t})" for c, t in segs) + "$"
    m = re.match(pat, line)
    if not m:
        return None
    d = m.groupdict()
    return d.get("c1"), d.get("c2"), d.get("c3")


def reference_normal_form(op):
    """C09's normal-form table as a 15-line reference: $v -> v, memory k(a,b,c) -> [a+b*c+k], (a,b,c) -> [a+b*c],
    k(,b,c) -> [+b*c+k], k(a) -> [a+k], (a) -> [a], k(a,b) -> [a+b+k]; text after ')' counts as displacement;
    everything else unchanged"""
    m = re.fullmatch(r"([^()]*)\(([^()]*)\)([^()]*)", op)
    if m and not (op.startswith("%st(")):
        pre, inside, post = m.groups()
        k = pre + post
        parts = inside.split(",")
        if len(parts) == 3:
            core = f"{parts[0]}+{parts[1]}*{parts[2]}"
        elif len(parts) == 2:
            core = f"{parts[0]}+{parts[1]}"
        else:
            core = parts[0]
        return f"[{core}+{k}]" if k else f"[{core}]"
    if op.startswith("$"):
        return op[1:]
    return op


def split_top_level(tok2):
    out, cur, depth = [], "", 0
    for ch_ in tok2:
        if ch_ == "(":
            depth += 1
        elif ch_ == ")":
            depth -= 1
        if ch_ == "," and depth == 0:
            out.append(cur)
            cur = ""
        else:
            cur += ch_
    out.append(cur)
    return out


def operands_ok(got, exp):
    """operands of the real parse == reference normal form of the second token's operands (unprefixed lines only)"""
    if exp[2] is None:
        return got[3] == []
    if exp[1] in PREFIX_WORDS or re.fullmatch(r"rex(\.[WRXB]+)?|\{[a-z0-9]+\}|bnd|notrack", exp[1] or ""):
        return True
    if "%st(" in exp[2]:
        return True  # x87 stack registers are outside C09's list of forms
    return got[3] == [reference_normal_form(o) for o in split_top_level(exp[2])]


def extraction_ok(got, exp):
    """real parse_line result vs the grammar's intended (addr, first token, second token)"""
    if got[0] != "INS" or exp is None:
        return False
    if got[1] != exp[0] or not same_mnemonic(got[2], exp[1]):
        return False
    if exp[2] is None and got[3] != []:
        return False  # a line without a second token has no operands, whatever presentation follows
    return True


def same_mnemonic(got, tok1):
    # the parser spells objdump's '(bad)' as 'bad' (documented special case, tested by the repo)
    return got == tok1 or (tok1 == "(bad)" and got == "bad")


def real_parse(line):
    from jasm.stringify_asm.implementations.gnu_objdump.asm_manual_parser_w_regex import parse_line
    from jasm.global_definitions import Instruction

    try:
        r = parse_line(line)
    except Exception as e:
        return ("EXC", type(e).__name__, str(e))
    if isinstance(r, Instruction):
        return ("INS", r.addr, r.mnemonic, list(r.operands))
    return ("OTHER", type(r).__name__)


class Ctx:
    def __init__(self, run):
        self.run = run
        self.w = lx.world()
        self.ll = lx.LineLang(self.w)
        self.q = rx.Q(120000)
        self.steps, self.data16, self.order = lx.recover_cascade()
        self.ins_steps = [s for s in self.steps if s.produces == "instruction"]
        self.langs = {}
        for s in self.steps:
            # every step of the cascade is a language: an earlier step that accepts a line hijacks it
            self.langs[s.method] = self.ll.step_lang(s)

    def ask(self, name, r):
        v, w = self.q.check(r)
        self.run.count(f"{name.split(':')[0]}:{v}")
        self.run.count("queries")
        if v == "sat":
            return v, lx.show(self.w, w)
        return v, w

    def step_for_class(self, cls_name, blind_lang):
        """first cascade step that accepts every line of the class; earlier steps must reject every line"""
        for s in self.steps:
            if s.method not in self.langs:
                continue
            Ls = self.langs[s.method]
            v_all, w = self.ask(f"CLASSIFY:{cls_name}", inter(blind_lang, comp(Ls)))
            if v_all == "unsat":
                return s, None
            v_none, w2 = self.ask(f"CLASSIFY:{cls_name}", inter(blind_lang, Ls))
            if v_none == "unsat":
                continue
            # mixed: some lines of the class are taken by this step, some are not
            return s, (w[0] if v_all == "sat" else None, w2[0] if v_none == "sat" else None)
        return None, None


def check_instruction_class(ctx, prop, cls_name, segs, feature, lemmas):
    """lemmas for one class of instruction lines. segs = intended coloured grammar."""
    run = ctx.run
    has_tok2 = any(c == 3 for c, _ in segs)
    blind = ctx.ll.seg(segs, blind=True)
    inten = ctx.ll.seg(segs)

    def confirm(line, why, key):
        exp = intended(line, segs)
        got = real_parse(line)
        ok = extraction_ok(got, exp)
        run.sample({"line": line, "expected(addr,tok1,tok2)": exp, "real_parse": got, "lemma": why})
        if exp is None:
            run.harness_error(f"{cls_name}: witness {line!r} is outside the grammar's own oracle")
        elif not ok:
            run.count("disagreements_replayed")
            run.failure(key, f"class={cls_name} lemma={why} line={line!r} expected addr={exp[0]!r} mnemonic={exp[1]!r} real={got}", {"kind": "lx", "line": line, "segs": segs, "lemma": why})
        else:
            run.harness_error(f"{cls_name}: {why} witness {line!r} did not reproduce on the real parser (encoding error)")

    step, mixed = ctx.step_for_class(cls_name, blind)
    if step is None:
        # no step accepts the whole class: get a line rejected by every instruction-producing step
        rej = inter(blind, *[comp(ctx.langs[s.method]) for s in ctx.ins_steps]) if ctx.ins_steps else blind
        v, w = ctx.ask(f"ACCEPT:{cls_name}", rej)
        if v == "sat":
            confirm(w[0], "ACCEPT", f"{feature}/ACCEPT/-")
        else:
            run.harness_error(f"{cls_name}: no cascade step accepts the whole class and no rejected witness found ({v})")
        return
    if mixed is not None:
        for line in mixed:
            if line is not None:
                got, exp = real_parse(line), intended(line, segs)
                if not extraction_ok(got, exp):
                    confirm(line, "ACCEPT", f"{feature}/ACCEPT/-")
                    return
        run.harness_error(f"{cls_name}: class is split between cascade steps at {step.method}; witnesses {mixed} parse as intended")
        return
    if step.produces != "instruction":
        v, w = ctx.ask(f"ACCEPT:{cls_name}", blind)
        if v == "sat":
            confirm(w[0], "ACCEPT", f"{feature}/ACCEPT/-")
        return
    run.coverage_extra.setdefault("class_handled_by", {})[cls_name] = f"{step.method} ({step.const})"
    # colouring lemmas on the handling step
    gmap, transforms = {}, {}
    for field, colour in (("addr", 1), ("mnemonic", 2), ("operands", 3)):
        g = step.groups.get(field)
        if isinstance(g, tuple):  # ('split0', group, sep): the field is the part of the group before the first sep
            transforms[g[1]] = (g[0], g[2])
            g = g[1]
        if g is not None:
            gmap[g] = colour
    if "addr" not in step.groups or ("mnemonic" not in step.groups and step.literal_mnemonic is None):
        run.harness_error(f"{cls_name}: handling step {step.method} does not wire addr/mnemonic to capture groups: {step.groups}")
        return
    # groups not wired to a field keep colour 0 (their text is presentation as far as the stream is concerned)
    _, ng = rx.parse(lx.prep(step.regex_text)[0])
    for g in range(1, ng + 1):
        gmap.setdefault(g, 0)
    Wc = ctx.ll.coloured(step.regex_text, gmap, transforms)
    if transforms:
        run.coverage_extra.setdefault("field_transforms", {})[step.method] = {str(k): v for k, v in transforms.items()}
    if has_tok2 and "operands" not in step.groups:
        # the handling step drops the second token: colour 3 is unconstrained in the intended grammar -> compare on colours 1,2 only
        pass
    if "COLOUR" in lemmas:
        tgt = inten
        if has_tok2 and "operands" not in step.groups:
            segs2 = [(0 if c == 3 else c, t) for c, t in segs]
            tgt = ctx.ll.seg(segs2)
        v, w = ctx.ask(f"COLOUR-a:{cls_name}", inter(tgt, comp(Wc)))
        if v == "sat":
            confirm(w[0], "COLOUR-intended-is-a-match", f"{feature}/COLOUR/a")
        elif v == "unknown":
            run.inconc(f"{cls_name}: COLOUR-a unknown ({w})")
        v, w = ctx.ask(f"COLOUR-b:{cls_name}", inter(Wc, blind, comp(tgt)))
        if v == "sat":
            confirm(w[0], "COLOUR-unique", f"{feature}/COLOUR/b")
        elif v == "unknown":
            run.inconc(f"{cls_name}: COLOUR-b unknown ({w})")
    if "SEPFREE" in lemmas:
        # C10: the mnemonic (colour 2) must be free of ',' '|' and '::' and must not start with ':'
        w_ = ctx.w
        c2 = lambda t: w_.lit(t, (2,))
        ANY = w_.ANY
        first2 = z3.Concat(z3.Star(w_.sigma((0, 1))), c2(":"), ANY)
        bad = rx.union([z3.Concat(ANY, c2(","), ANY), z3.Concat(ANY, c2("|"), ANY), z3.Concat(ANY, c2("::"), ANY), first2])
        v, w = ctx.ask(f"SEPFREE-mnemonic:{cls_name}", inter(Wc, blind, bad))
        if v == "sat":
            line = w[0]
            got, exp = real_parse(line), intended(line, segs)
            run.sample({"line": line, "real_parse": got, "lemma": "SEPFREE-mnemonic"})
            if got[0] == "INS" and any(x in got[2] for x in (",", "|", "::")):
                run.count("disagreements_replayed")
                run.failure(f"{feature}/SEPFREE/mnemonic", f"class={cls_name} line={line!r}: mnemonic field {got[2]!r} contains a stream separator; stream record = {got[1]}::{got[2]},{','.join(got[3])},|", {"kind": "lx", "line": line, "segs": segs, "lemma": "SEPFREE"})
            else:
                run.harness_error(f"{cls_name}: SEPFREE witness {line!r} did not reproduce: {got}")
        # the address group is lower-case hex and non-empty (by COLOUR it is the grammar's address)
        v, w = ctx.ask(f"SEPFREE-addr:{cls_name}", inter(Wc, blind, comp(z3.Concat(z3.Star(w_.sigma((0,))), z3.Plus(w_.chars([ord(c) for c in "0123456789abcdef"], (1,))), z3.Star(w_.sigma((0, 2, 3)))))))
        if v == "sat":
            got = real_parse(w[0])
            if got[0] == "INS" and not re.fullmatch("[0-9a-f]+", got[1]):
                run.failure(f"{feature}/SEPFREE/addr", f"class={cls_name} line={w[0]!r}: address field {got[1]!r} is not lower-case hex", {"kind": "lx", "line": w[0], "segs": segs, "lemma": "SEPFREE-addr"})
            else:
                run.harness_error(f"{cls_name}: SEPFREE-addr witness {w[0]!r} did not reproduce: {got}")
        if has_tok2:
            c3 = lambda t: w_.lit(t, (3,))
            bad3 = rx.union([z3.Concat(ANY, c3("|"), ANY), z3.Concat(ANY, c3("::"), ANY), z3.Concat(ANY, c3(" "), ANY), z3.Concat(ANY, c3("#"), ANY)])
            v, w = ctx.ask(f"SEPFREE-optoken:{cls_name}", inter(Wc, blind, bad3))
            if v == "sat":
                run.failure(f"{feature}/SEPFREE/operands", f"class={cls_name} line={w[0]!r}: operand token contains '|', '::', blank or '#'", {"kind": "lx", "line": w[0], "segs": segs, "lemma": "SEPFREE"})


def check_noninstruction(ctx, kind, segs, feature):
    run = ctx.run
    blind = ctx.ll.seg(segs, blind=True)
    for s in ctx.ins_steps:
        v, w = ctx.ask(f"REJECT:{kind}", inter(blind, ctx.langs[s.method]))
        if v == "sat":
            line = w[0]
            got = real_parse(line)
            run.sample({"line": line, "real_parse": got, "lemma": f"REJECT:{kind}"})
            if got[0] == "INS" and got[2] != "empty":
                run.count("disagreements_replayed")
                run.failure(f"{feature}/REJECT/{s.method}", f"{kind} line {line!r} is turned into an instruction: {got}", {"kind": "lx", "line": line, "segs": segs, "lemma": "REJECT"})
            else:
                run.harness_error(f"{kind}: REJECT witness {line!r} did not reproduce: {got}")
        elif v == "unknown":
            run.inconc(f"{kind}: REJECT unknown for {s.method}")


def data16_probe(run):
    """The `data16 ` pre-processing of LineParser.parse is a string rewrite, outside the regular-language encoding.
    It is exercised on randomly drawn members of every data16 line class of the grammar (bug hunting, not a proof):
    the real parse_line must yield the line's address and its first token that is not the data16 prefix
    (the token `data16` itself when nothing follows it, as objdump prints for a dangling 0x66 prefix)."""
    W = G.WORD
    classes = {
        "alone": G.HEAD + [(2, "data16")],
        "before_instruction": G.HEAD + [(0, "data16 "), (2, W), (0, G.SP), (3, G.OPS), (0, G.TAIL)],
        "before_single_token": G.HEAD + [(0, "data16 "), (2, W)],
        "twice": G.HEAD + [(0, "data16 data16 "), (2, W), (0, G.SP), (3, G.OPS)],
        "with_other_prefix": G.HEAD + [(0, "data16 "), (2, "(?:cs|ds|es|lock|rep|addr32)"), (0, " "), (3, W), (0, G.TAIL)],
    }
    import random

    rnd = random.Random(seed() + 16)
    n_each = 6 if tier() == "quick" else 100
    for cname, segs in classes.items():
        asts = [(c, rx.parse(t)[0]) for c, t in segs]
        for _ in range(n_each):
            line = "".join(rx.sample(a, rnd, lx.ALPHABET) for _, a in asts)
            exp = intended(line, segs)
            if exp is None:
                continue
            got = real_parse(line)
            run.count("traces_validated_against_impl")
            ok = extraction_ok(got, exp)
            if not ok:
                run.count("disagreements_replayed")
                run.failure(f"data16/{cname}", f"data16 line {line!r}: expected addr={exp[0]!r} mnemonic={exp[1]!r}, real parse -> {got}", {"kind": "lx", "line": line, "segs": segs, "lemma": "DATA16"})
                break


def validate_grammar(run, t, sd):
    nbytes = 20000 if t == "quick" else 400000
    cre = G.classify_regexes()
    tot, gaps_all, seen_all = 0, [], {}
    for mode in ("i386:x86-64", "i386", "i8086"):
        try:
            lines = G.objdump_random(sd + 1, nbytes, mode)
        except Exception as e:
            run.inconc(f"grammar validation: objdump unavailable for {mode}: {e}")
            continue
        n, gaps, seen = G.validate(lines, cre)
        tot += n
        gaps_all += gaps[:20]
        for k, v in seen.items():
            seen_all[k] = seen_all.get(k, 0) + v
    import glob
    import os

    bins = sorted(glob.glob(os.path.join(common.REPO, "tests/binary/*")))
    if t == "quick":
        bins = bins[:1] + bins[-3:]
    for f in bins:
        try:
            lines = G.objdump_file(f)
        except Exception:
            continue
        n, gaps, seen = G.validate(lines, cre)
        tot += n
        gaps_all += gaps[:20]
        for k, v in seen.items():
            seen_all[k] = seen_all.get(k, 0) + v
    run.coverage_extra["grammar_validation"] = {"objdump_lines_checked": tot, "lines_outside_G": len(gaps_all), "gap_examples": gaps_all[:10], "productions_witnessed": seen_all}
    run.count("grammar_lines_validated", tot)
    return tot


def translator_validation(ctx, n_each=3):
    """solver-chosen members / non-members of each step's language vs Python's re.match on the real constant"""
    run = ctx.run
    for s in ctx.steps:
        if s.method not in ctx.langs or s.regex_text is None or getattr(s, "lowered", False):
            continue
        U = ctx.ll.seg([(0, "[\\t -~]*")])
        rgx = re.compile(s.regex_text)
        for want, lang in ((True, inter(U, ctx.ll.regex_lang(s.regex_text, None, (0,))[0])), (False, inter(U, comp(ctx.ll.regex_lang(s.regex_text, None, (0,))[0]), ctx.ll.seg([(0, " {0,4}[0-9a-f]{1,4}:\\t[\\t -~]*")])))):
            v, w = ctx.ask(f"VAL:{s.method}", lang)
            if v == "sat":
                line = w[0]
                if (rgx.match(line) is not None) != want:
                    run.harness_error(f"translator validation: {s.const} on {line!r}: re.match={'yes' if rgx.match(line) else 'no'} encoding={'member' if want else 'non-member'}")
                else:
                    run.count("traces_validated_against_impl")


def sample_validation(run, prop):
    """Differential validation that does NOT depend on the encoding of the cascade: for every fine-grained class of
    instruction lines (partitioned by the shape of the first token) members of the grammar are drawn at random
    (VERIF_SEED) and the REAL parse_line must return the line's address and first token (for C10 also
    separator-free fields).  This is validation by sampling, stated as such; the lemmas below are the deciding step."""
    import random

    rnd = random.Random(seed() + 5)
    n_each = 12 if tier() == "quick" else 200
    for cname, segs in G.sample_classes().items():
        asts = [(c, rx.parse(t)[0]) for c, t in segs]
        for _ in range(n_each):
            line = "".join(rx.sample(a, rnd, lx.ALPHABET) for _, a in asts)
            exp = intended(line, segs)
            if exp is None:
                continue
            got = real_parse(line)
            run.count("traces_validated_against_impl")
            ok = extraction_ok(got, exp)
            sepfree = got[0] != "INS" or not any(x in fld for fld in [got[1], got[2]] + list(got[3]) for x in (",", "|", "::"))
            if ok and prop in ("C08", "C09", "C10") and cname.startswith("ops/") and not operands_ok(got, exp):
                run.count("disagreements_replayed")
                run.failure(f"sample/{cname}/OPERANDS", f"line {line!r}: operands {got[3]} are not the normal form of {exp[2]!r}", {"kind": "lx", "line": line, "segs": segs, "lemma": "OPERANDS"})
                break
            if not ok:
                run.count("disagreements_replayed")
                run.failure(f"sample/{cname}", f"line {line!r}: expected addr={exp[0]!r} first token={exp[1]!r}, real parse -> {got}", {"kind": "lx", "line": line, "segs": segs, "lemma": "SAMPLE"})
                break
            if prop == "C10" and not sepfree:
                run.count("disagreements_replayed")
                run.failure(f"sample/{cname}/SEPFREE", f"line {line!r}: a field of {got} contains a stream separator", {"kind": "lx", "line": line, "segs": segs, "lemma": "SEPFREE-ANY"})
                break


RARE_LINES = [
    # (bytes column, mnemonic, operand text) - real objdump 2.40 output shapes that random sampling seldom draws
    ("0f", "cmpxchg8b", "(bad)"),
    ("62 e1 7f 29 7f 07", "vmovdqu8", "%ymm16,(%rdi){%k1}"),
    ("62 f1 74 58 58 50 10", "vaddps", "0x40(%rax){1to16},%zmm1,%zmm2"),
    ("62 f1 7c 4a 11 44 98", "vmovups", "%zmm0,0x40(%rax,%rbx,4){%k2}"),
    ("62 f1 7c c9 28 c1", "vmovaps", "%zmm1,%zmm0{%k1}{z}"),
    ("65 ff 94 d8 10 00 00", "call", "*%gs:0x10(%rax,%rbx,8)"),
    ("2e ff 22", "jmp", "*%cs:(%bp,%si)"),
    ("64 48 8b 04 25 28 00", "mov", "%fs:0x28,%rax"),
    ("64 8b 04 d0", "mov", "%fs:(%rax,%rdx,8),%eax"),
    ("48 8d 14 c5 00 00 00", "lea", "0x0(,%rax,8),%rdx"),
    ("89 0c 9d fc ff ff ff", "mov", "%ecx,-0x4(,%rbx,4)"),
    ("4d 8b 40 08", "mov", "0x8(%r8),%r8"),
    ("4a 8d 04 88", "lea", "(%rax,%r9,4),%rax"),
    ("48 8d 04 40", "lea", "(%rax,%rax,2),%rax"),
    ("67 8b 00", "mov", "(%bx,%si),%eax"),
    ("66 8b 40 10", "mov", "0x10(%bx,%si),%ax"),
    ("68 10 20 40 00", "push", "$0x402010"),
    ("c2 08 00", "ret", "$0x8"),
    ("ff 24 c5 00 10 40 00", "jmp", "*0x401000(,%rax,8)"),
    ("c8 10 00 01", "enter", "$0x10,$0x1"),
    ("f3 0f 1e fa", "endbr64", ""),
    ("c3", "ret", ""),
    ("c9", "leave", ""),
    ("66", "data16", ""),
    # symbol annotations with blanks (objdump -C demangles), comments with several words
    ("e8 31 01 00 00", "call", "401136", " <add(int, int)>"),
    ("48 8d 05 ba 2e 00 00", "lea", "0x2eba(%rip),%rax", "        # 404010 <vtable for Shape+0x10>"),
    ("e8 00 00 00 00", "call", "10a0", " <std::to_string[abi:cxx11](int)>"),
    ("8d b4 26 00 00 00 00", "lea", "0x0(%esi,%eiz,1),%esi"),
    ("8d 74 26 00", "lea", "0x0(%rsi,%riz,1),%rsi"),
    ("48 c7 44 c4 18 ff ff", "movq", "$0xffffffffffffffff,0x18(%rsp,%rax,8)"),
    ("4f 69 b4 ec 10 00 00", "imul", "$0x12345678,-0x7ffffff0(%r12,%r13,8),%r14"),
    ("2e 74 05", "je,pn", "40100b", " <main+0xb>", "je"),
    # prefixes handled by string rewriting: the hint / prefix order must not matter
    ("66 2e 75 00", "data16 jne,pn", "0x4", "", "jne"),
    ("66 3e 75 00", "data16 jne,pt", "0x4", "", "jne"),
]


def rare_shape_battery(run, prop):
    """A fixed battery of rare but real objdump line shapes (AVX-512 decorations, segment overrides with base/index, base-less
    scaled index, r8-r15, 16-bit pairs, '(bad)' as operand, operand-less lines with and without trailing blanks): address and
    mnemonic come out, operands are the reference normal form, no field contains a stream separator, nothing raises."""
    for i, entry in enumerate(RARE_LINES):
        raw, m, ops = entry[:3]
        tail = entry[3] if len(entry) > 3 else ""
        a = format(0x401000 + 8 * i, "x") if i % 5 else "00" + format(0x401000 + 8 * i, "x")  # some zero-padded addresses
        indent = "  "
        if i % 7 == 3:
            a, indent = format(0xffffffff81000000 + 8 * i, "x"), ""    # kernel-style: the address fills the column, no indentation
        elif i % 7 == 5:
            a, indent = format(0xc1000000 + 8 * i, "x"), ""            # 8-digit address, flush left
        for pad in (("", "   ") if not ops and m != "data16" else ("",)):
            line = f"{indent}{a}:\t{raw:<21}\t{(m + ' ').ljust(7) + ops + tail if ops else m + pad}"
            if len(entry) > 4:
                m = entry[4]   # the mnemonic that must come out (prefix and hint removed)
            got = real_parse(line)
            want_ops = [reference_normal_form(o) for o in split_top_level(ops)] if ops else []
            run.count("traces_validated_against_impl")
            ok = got[0] == "INS" and got[1] == a and got[2] == m and (prop == "C16" or got[3] == want_ops)
            sepfree = got[0] != "INS" or not any(x in fld for fld in [got[1], got[2]] + list(got[3]) for x in (",", "|", "::"))
            if not ok or (prop == "C10" and not sepfree):
                run.count("disagreements_replayed")
                run.failure(f"rare_shape/{m}/{i}", f"line {line!r}: expected addr={a!r} mnemonic={m!r} operands={want_ops}, real parse -> {got}", {"kind": "lx", "line": line, "segs": None, "lemma": "RARE"})


def main_for(prop):
    run = Run(prop, "model_checking", "LX")
    t, sd = tier(), seed()
    sample_validation(run, prop)
    rare_shape_battery(run, prop)
    if prop in ("C08", "C16"):
        data16_probe(run)      # independent of the encoding of the cascade
    try:
        ctx = Ctx(run)
    except Unsupported as e:
        run.harness_error(f"cannot encode the line classifier: {e}")
        # the listing-level probes do not depend on the encoding: they still run (and can report a replayable violation)
        try:
            if prop == "C16":
                presentation_edit_battery(run)
            long_listing_parser_probe(run)
        except Exception as e2:
            run.harness_error(f"listing-level probes: {type(e2).__name__}: {e2}")
        return run.finish({"evaluations": max(1, run.counts.get("traces_validated_against_impl", 0)), "distinct_nontrivial": max(2, run.counts.get("traces_validated_against_impl", 0)), "samples": run.samples or ["(encoding failed)"]}, ASSUME)
    run.coverage_extra["cascade"] = [repr(s) for s in ctx.steps]
    run.coverage_extra["cascade_call_order"] = ctx.order
    run.coverage_extra["data16_statement"] = list(ctx.data16) if ctx.data16 else None
    validate_grammar(run, t, sd)
    translator_validation(ctx)
    if prop == "C08":
        check_instruction_class(ctx, prop, "instruction_with_second_token", G.G_OPS, "ins_ops", ("COLOUR",))
        check_instruction_class(ctx, prop, "branch_with_hint", G.G_OPS_HINT, "ins_hint", ("COLOUR",))
        check_instruction_class(ctx, prop, "instruction_single_token", G.G_NOOPS, "ins_noops", ("COLOUR",))
        for kind, segs in G.NONINSTR.items():
            check_noninstruction(ctx, kind, segs, f"non_{kind}")
        c08_extra(ctx)
    elif prop == "C10":
        check_instruction_class(ctx, prop, "instruction_with_second_token", G.G_OPS, "ins_ops", ("COLOUR", "SEPFREE"))
        check_instruction_class(ctx, prop, "branch_with_hint", G.G_OPS_HINT, "ins_hint", ("COLOUR", "SEPFREE"))
        check_instruction_class(ctx, prop, "instruction_single_token", G.G_NOOPS, "ins_noops", ("COLOUR", "SEPFREE"))
        c10_extra(ctx)
    elif prop == "C16":
        check_instruction_class(ctx, prop, "instruction_with_second_token", G.G_OPS, "ins_ops", ("COLOUR",))
        check_instruction_class(ctx, prop, "instruction_single_token", G.G_NOOPS, "ins_noops", ("COLOUR",))
        check_instruction_class(ctx, prop, "branch_with_hint", G.G_OPS_HINT, "ins_hint", ("COLOUR",))
        check_instruction_class(ctx, prop, "instruction_single_token_with_comment", G.G_NOOPS_COMMENT, "ins_noops_comment", ("COLOUR",))
        check_instruction_class(ctx, prop, "instruction_with_second_token_no_byte_column", G.G_OPS_NOBYTES, "nobytes_ops", ("COLOUR",))
        check_instruction_class(ctx, prop, "instruction_single_token_no_byte_column", G.G_NOOPS_NOBYTES, "nobytes_noops", ("COLOUR",))
        for kind, segs in G.NONINSTR.items():
            check_noninstruction(ctx, kind, segs, f"non_{kind}")
        c16_extra(ctx)
    run.solver_s = ctx.q.wall
    states = run.counts.get("queries", 0)
    cov = {
        "states": max(1, states),
        "transitions": max(1, len(ctx.steps)),
        "traces_validated_against_impl": run.counts.get("traces_validated_against_impl", 0) + run.counts.get("grammar_lines_validated", 0),
        "explanation": "states = solver queries (each quantifies over every line of a grammar class, unbounded length); transitions = cascade steps recovered from the AST; traces = solver-chosen lines replayed through re.match on the real constants + real objdump lines checked against G",
        "functions_encoded": [f"{s.method}: {s.const}" for s in ctx.steps],
        "source_hashes": common.file_hashes(FILES),
        "bounds": {"line_length": "unbounded (bounded repetition only where the grammar states it)", "solver_timeout_ms": 120000},
        "notes": sorted(set(ctx.ll.notes)),
    }
    return run.finish(cov, ASSUME)


# ------------------------------------------------------------------ property-specific extras
def long_listing_parser_probe(run):
    """Validation on a LONG listing (the symbolic lemmas are per line; the per-listing loop is only executed here):
    70 000 instruction lines with labels, blanks and continuation lines interleaved must yield exactly the
    instruction lines, in order."""
    from vlib import jasmapi

    n = 70000
    lines, want = ["", "big:     file format elf64-x86-64", "", "Disassembly of section .text:", "", "0000000000400000 <f>:"], []
    for i in range(n):
        a = format(0x400000 + 3 * i, "x")
        lines.append(f"  {a}:\t48 89 c3             \tmov    %rax,%rbx")
        want.append(a)
        if i % 9973 == 0:
            lines.append(f"  {a}:\t00 00 ")          # continuation line
            lines.append("")
            lines.append(f"{int(a, 16) + 3:016x} <g{i}>:")
    text = "\n".join(lines) + "\n"
    # (a) the parser alone, (b) the whole file route (disassembler stub, producer, parser, observers, consumer),
    # (c) the same listing shifted by a few blank lines (chunk / batch borders must not fall differently)
    for route, fn in (("parser", lambda: jasmapi.parse_listing(text)), ("file", lambda: jasmapi.file_route_stream(text)), ("file_shifted", lambda: jasmapi.file_route_stream("\n\n\n" + text))):
        stream = fn()
        got = [r.split("::", 1)[0] for r in stream.split("|") if r]
        run.count("traces_validated_against_impl")
        if got != want or stream.count(",|") != len(want):
            first = next((i for i, (x, y) in enumerate(zip(got, want)) if x != y), min(len(got), len(want)))
            run.failure(f"long_listing/STREAM/{route}", f"listing of {n} instruction lines ({len(text)} characters) gave {len(got)} stream instructions through the {route} route; first difference at instruction #{first} (expected address {want[first] if first < len(want) else None})", {"kind": "lx_long", "n": n, "route": route})


def stream_context_probe(run, prefix):
    """The stream of a listing is a function of the listing alone (C08-C10, C16): not of an earlier operation of the process -
    one whose address range tags this very listing's branch targets, on the same file -, not of rule options that do not
    concern a listing (style, full-match flags, sections), and it is that of the file as it is NOW (a listing of the same
    length with other operands written to the same path). Concrete histories in one interpreter (validation)."""
    from vlib import jasmapi

    def listing(ops):
        rows = [("401000", "e8 fb 0f 00 00", "call   " + ops[0] + " <helper>"), ("401005", "8b 4c 98 08", "mov    " + ops[1] + ",%ecx"), ("401009", "74 01", "je     40100c <main+0xc>"),
                ("40100b", "b8 10 00 00 00", "mov    $" + ops[2] + ",%eax"), ("401010", "eb ee", "jmp    " + ops[3] + " <main>"), ("401012", "ff d0", "call   *%rax"), ("401014", "c3", "ret")]
        return "0000000000401000 <main>:\n" + "".join(f"  {a}:\t{b:<21}\t{t}\n" for a, b, t in rows)

    def stream(ops, tagged=False):
        t = "valid_addr" if tagged else None
        return f"401000::call,{t or ops[0]},|401005::mov,{reference_normal_form(ops[1])},%ecx,|401009::je,{t or '40100c'},|40100b::mov,{ops[2]},%eax,|401010::jmp,{t or ops[3]},|401012::call,*%rax,|401014::ret,,|"

    o1, o2 = ("402000", "0x8(%rax,%rbx,4)", "0x10", "401000"), ("402abc", "0x4(%rsi,%rdi,2)", "0x20", "401004")
    L1, L2 = listing(o1), listing(o2)
    assert len(L1) == len(L2)
    plain = {"pattern": ["zzzz"]}
    ranged = {"config": {"valid_addr_range": {"min": "0x401000", "max": "0x402fff"}}, "pattern": ["zzzz"]}
    options = [("style_intel", {"style": "intel"}), ("style_att", {"style": "att"}), ("full_match", {"mnemonics-full-match": True, "operands-full-match": True}), ("sections", {"sections": [".text", ".init"]})]
    steps = [("first", plain, L1, stream(o1)), ("with_range", ranged, L1, stream(o1, True)), ("after_range", plain, L1, stream(o1)), ("with_range_again", ranged, L1, stream(o1, True))]
    steps += [(nm, {"config": c, "pattern": ["zzzz"]}, L1, stream(o1)) for nm, c in options]
    steps += [("rewritten_in_place", plain, L2, stream(o2)), ("rewritten_with_range", ranged, L2, stream(o2, True)), ("rewritten_back", plain, L1, stream(o1)), ("style_intel_after_all", {"config": {"style": "intel"}, "pattern": ["zzzz"]}, L2, stream(o2))]
    got = jasmapi.stream_sequence([(doc, text) for _, doc, text, _ in steps])
    run.count("traces_validated_against_impl", len(steps))
    for (nm, doc, _, want), g in zip(steps, got):
        if g != want:
            run.failure(f"{prefix}/STREAM-CONTEXT/{nm}", f"history of {len(steps)} operations on one listing path, step '{nm}' (rule config {doc.get('config')}): stream {g!r}, expected {want!r}", {"kind": "lx_stream", "text": g})
            break


def c08_extra(ctx):
    """filter chain: only Instructions with mnemonic != 'empty' reach the stream, in order (concrete, exhaustive over kinds)"""
    from vlib import jasmapi

    run = ctx.run
    lines = [
        "0000000000001000 <f>:",
        "    1000:\t48 89 e5             \tmov    %rsp,%rbp",
        "    1003:\ta0 d3 00 4a 00 a0 a1 \tmovabs 0x88b0a1a0004a00d3,%al",
        "    100a:\tb0 88 ",
        "\t...",
        "",
        "Disassembly of section .fini:",
        "    100c:\tc3                   \tret",
    ]
    long_listing_parser_probe(run)
    stream_context_probe(run, "filter_chain")
    stream = jasmapi.parse_listing("\n".join(lines) + "\n")
    exp = "1000::mov,%rsp,%rbp,|1003::movabs,0x88b0a1a0004a00d3,%al,|100c::ret,,|"
    run.count("traces_validated_against_impl")
    if stream != exp:
        run.failure("filter_chain/STREAM/-", f"listing with continuation/label/section lines gave stream {stream!r}, expected {exp!r}", {"kind": "lx_stream", "lines": lines, "expected": exp})
    # the same listing as a FILE (LF, CRLF, no final newline), twice in one dump, and replaced in place by another listing
    for nm, data in (("LF", "\n".join(lines) + "\n"), ("CRLF", "\r\n".join(lines) + "\r\n"), ("no_final_newline", "\n".join(lines))):
        got = jasmapi.file_route_stream(data.encode())
        run.count("traces_validated_against_impl")
        if got != exp:
            run.failure(f"filter_chain/FILE/{nm}", f"the listing stored with {nm} line ends gave stream {got!r}, expected {exp!r}", {"kind": "lx_stream", "lines": lines, "expected": exp})
    got = jasmapi.file_route_stream(("\n".join(lines) + "\n") * 2)
    run.count("traces_validated_against_impl")
    if got != exp + exp:
        run.failure("filter_chain/FILE/twice", f"the listing twice in one file (two objects in one dump) gave {got.count('|')} instructions, expected {2 * exp.count('|')}", {"kind": "lx_stream", "lines": lines, "expected": exp + exp})
    l1 = "    1000:\t48 89 c3             \tmov    %rax,%rbx\n    1003:\tc3                   \tret\n"
    l2 = "    2000:\t48 31 c3             \txor    %rax,%rbx\n    2003:\tc3                   \tret\n"
    twice = jasmapi.constructed_first_results([{"pattern": ["ret"]}], l1, ret="stream")
    run.count("traces_validated_against_impl")
    if twice != ["1000::mov,%rax,%rbx,|1003::ret,,|"] * 2:
        run.failure("filter_chain/FILE/same_object_twice", f"one matcher object run twice on the same listing: streams {twice}", {"kind": "lx_stream", "lines": [], "expected": ""})
    (_a1, s1), (_a2, s2) = jasmapi.rewritten_input_results({"pattern": ["zzzz"]}, l1, l2)
    run.count("traces_validated_against_impl")
    if s1 != "1000::mov,%rax,%rbx,|1003::ret,,|" or s2 != "2000::xor,%rax,%rbx,|2003::ret,,|":
        run.failure("filter_chain/FILE/rewritten", f"file rewritten in place between two runs: streams {s1!r} then {s2!r}", {"kind": "lx_stream", "lines": [], "expected": ""})


    # (iv) "no line that objdump can print makes the parser fail": every operand form of G goes through a CrossHair
    # harness of the operand normaliser (shared with C09); an exception is a counterexample there
    from checks import c09
    from vlib import ch

    forms = {
        "REG / STREG-free registers": "reg, indirect_reg",
        "IMM": "imm",
        "MEM disp(base,index,scale) / (base,index,scale) / disp(,index,scale)": "mem4, mem3, mem4_nobase",
        "MEM disp(base) / (base) / seg:(base) / *disp(base) / %st(n) / (bad)": "mem1, mem0",
        "MEM16 disp(base,index) / (base,index)": "pair4, pair3",
        "ABS / TARGET / ROUND / decorations / words after a prefix": "passthrough",
    }
    run.coverage_extra["operand_forms_covered_by_harness"] = forms
    hs = [h for h in c09.harnesses(tier()) if not h.name.startswith("c09/compose")]
    for h in hs:
        h.key = "parser_fails_" + h.key
    from checks import leafharness, c18

    hs += leafharness.c08_plumbing(tier())
    # byte-continuation pseudo instructions are dropped whatever other observers are installed
    chain = [h for h in c18.harnesses(tier()) if h.name == "c18/chain"]
    for h in chain:
        h.key = "filter_chain"
    hs += chain
    # one stream record per consumed instruction, in order, also when two lines carry the same address
    recs = record_harnesses(tier())[:3]
    for h in recs:
        h.key = "stream_one_record_per_instruction"
    hs += recs
    ch.run_harnesses(run, hs)


C10_PRE = '''
from jasm.global_definitions import Instruction, MatchingSearchMode
from jasm.consumer import CompleteConsumer
from jasm.matched_observers import MatchedObserver
from jasm.stringify_asm.implementations.observers import RemoveEmptyInstructions
import jasm.consumer as _c

class _NoEngine:
    """stub for the third-party regex module: the record format does not depend on matching"""
    @staticmethod
    def search(pattern, string, timeout=None):
        return None
    @staticmethod
    def finditer(pattern, string, timeout=None):
        return iter(())
_c.regex = _NoEngine
'''


def record_harnesses(t):
    """record format: addr::mnemonic,op,...,| per instruction, in order, one empty operand field for an operand-less
    instruction, byte-continuation pseudo instructions dropped; the two addresses are symbolic and MAY BE EQUAL
    (a relocatable object has several sections that all start at 0)"""
    from vlib import ch

    T = 60 if t == "quick" else 240
    hs = []
    # the NUMBER of instructions (0-3) and of interleaved byte-continuation pseudo instructions (0-2) symbolic: zero
    # instructions give the empty stream, n instructions give n records
    src = '''def record_count(n: int, k: int, a1: str, m1: str, o1: str) -> bool:
    """
    pre: 0 <= n <= 3 and 0 <= k <= 2
    pre: len(a1) == 1 and len(m1) == 2 and len(o1) == 1
    pre: m1 != "empty"
    post: _
    """
    obs = MatchedObserver()
    c = CompleteConsumer("r", obs, MatchingSearchMode.first_find, False)
    c.add_observer(RemoveEmptyInstructions())
    want = ""
    if k >= 1:
        c.consume_instruction(Instruction("7", "empty", []))
    if n >= 1:
        c.consume_instruction(Instruction(a1, m1, [o1]))
        want += a1 + "::" + m1 + "," + o1 + ",|"
    if k >= 2:
        c.consume_instruction(Instruction("8", "empty", []))
    if n >= 2:
        c.consume_instruction(Instruction("9", m1, []))
        want += "9::" + m1 + ",,|"
    if n >= 3:
        c.consume_instruction(Instruction(a1, "ret", [o1, o1]))
        want += a1 + "::ret," + o1 + "," + o1 + ",|"
    c.finalize()
    return obs.stringified_instructions == want
'''
    hs.append(ch.H("c10/record_count", src, timeout=T, prelude=C10_PRE, key="record_format", note="0-3 instructions with 0-2 byte-continuation pseudo instructions in between: n instructions give n records, none gives the empty stream"))
    tuples = [(1, 1, 1, 1, 1, 1), (2, 2, 2, 2, 2, 2), (1, 2, 0, 1, 2, 1), (2, 1, 1, 0, 1, 2)]
    if t == "thorough":
        tuples += [(3, 3, 3, 3, 3, 3), (1, 4, 2, 0, 3, 1), (4, 1, 0, 0, 1, 4)]
    for tp in tuples:
        tag = "".join(map(str, tp))
        names = ["a1", "m1", "o1", "o2", "a2", "m2"]
        pre = " and ".join(f"len({n}) == {l}" for n, l in zip(names, tp))
        src = f'''def record_{tag}(a1: str, m1: str, o1: str, o2: str, a2: str, m2: str) -> bool:
    """
    pre: {pre}
    pre: m1 != "empty" and m2 != "empty"
    post: _
    """
    obs = MatchedObserver()
    c = CompleteConsumer("r", obs, MatchingSearchMode.first_find, False)
    c.add_observer(RemoveEmptyInstructions())
    c.consume_instruction(Instruction(a1, m1, [o1, o2]))
    c.consume_instruction(Instruction("7", "empty", []))
    c.consume_instruction(Instruction(a2, m2, []))
    c.finalize()
    return obs.stringified_instructions == a1 + "::" + m1 + "," + o1 + "," + o2 + ",|" + a2 + "::" + m2 + ",,|"
'''
        hs.append(ch.H(f"c10/record/{tag}", src, timeout=T, prelude=C10_PRE, key="record_format", note="two instructions (2 operands / none) + a byte-continuation pseudo instruction that must be dropped"))
    return hs


def c10_extra(ctx):
    """(1) record format: addr::mnemonic,op,...,| with one empty operand field for an operand-less instruction (CrossHair on
    the real Instruction.stringify / CompleteConsumer.consume_instruction / finalize);
    (2) operand texts: the normal forms of C09 are concatenations of the operand's parts with '[', '+', '*', ']'."""
    from checks import c09
    from vlib import ch

    run = ctx.run
    hs = record_harnesses(tier())
    # the stream handed to the matcher encodes THIS run's instruction list, also right after a run that failed
    from vlib import jasmapi

    la = "    1000:\t48 89 c3             \tmov    %rax,%rbx\n    1003:\tc3                   \tret\n"
    lb = "    2000:\t90                   \tnop\n    2001:\tc3                   \tret\n"
    try:
        jasmapi.run_pipeline({"pattern": ["mov("]}, la, ret="list")
    except Exception:
        pass
    got = jasmapi.run_pipeline({"pattern": ["ret"]}, lb, ret="stream")
    run.count("traces_validated_against_impl")
    if got != "2000::nop,,|2001::ret,,|":
        run.failure("record_format/after_failed_run", f"stream of a run that follows a failed run: {got!r}", {"kind": "lx_stream", "text": got})
    # listings without any instruction line (what objdump prints for an all-zero or data-only section): NO stream instruction
    for nm, text in (("all_zero_section", "\nz.o:     file format elf64-x86-64\n\n\nDisassembly of section .text:\n\n0000000000000000 <pad>:\n\t...\n"), ("header_only", "\nprog:     file format elf64-x86-64\n\n"), ("empty_file", ""), ("continuation_only", "    4010:\t00 00 \n")):
        got = jasmapi.file_route_stream(text)
        found = jasmapi.run_pipeline({"pattern": [{"$not": ["call"]}]}, text, all_matches=True)
        run.count("traces_validated_against_impl")
        if got != "" or found:
            run.failure("filter_chain/NO-INSTRUCTIONS", f"a listing without instruction lines ({nm}) gives the stream {got!r} (a rule matching any one instruction finds {found}); expected no stream instruction", {"kind": "lx_stream", "lines": text.split("\n"), "expected": ""})
    # relocatable objects / archives: addresses restart at 0 in every section, records are NOT keyed by address
    two = "".join(f"Disassembly of section {sec}:\n\n0000000000000000 <{sym}>:\n   0:\t55                   \tpush   %rbp\n   1:\t{b:<21}\t{t}\n   {a}:\tc3                   \tret\n\n" for sec, sym, b, t, a in ((".text", "f", "48 89 e5", "mov    %rsp,%rbp", "4"), (".init.text", "g", "31 c0", "xor    %eax,%eax", "3"), (".exit.text", "h", "90", "nop", "2")))
    got = jasmapi.file_route_stream(two)
    want2 = "0::push,%rbp,|1::mov,%rsp,%rbp,|4::ret,,|0::push,%rbp,|1::xor,%eax,%eax,|3::ret,,|0::push,%rbp,|1::nop,,|2::ret,,|"
    run.count("traces_validated_against_impl")
    if got != want2:
        run.failure("record_format/restarting_addresses", f"three sections whose addresses restart at 0: stream {got!r}, expected {want2!r}", {"kind": "lx_stream", "text": got})
    stream_context_probe(run, "record_format")
    # a listing without any instruction encodes the empty list: the stream is the empty string (no stray separators)
    for nm, text in (("header_only", "\nprog:     file format elf64-x86-64\n\n"), ("empty_file", ""), ("only_dropped_lines", "Disassembly of section .data:\n\n0000000000004000 <d>:\n\t...\n    4010:\t00 00 \n")):
        got = jasmapi.file_route_stream(text)
        run.count("traces_validated_against_impl")
        if got != "":
            run.failure("record_format/empty_list", f"a listing without instructions ({nm}) gives the stream {got!r} instead of the empty string", {"kind": "lx_stream", "text": got})
    # two different instruction lists never produce the same stream: the list is that of the file as it is NOW
    l1 = "    1000:\t48 89 c3             \tmov    %rax,%rbx\n    1003:\tc3                   \tret\n"
    l2 = "    1000:\t48 31 c3             \txor    %rax,%rbx\n    1003:\tc3                   \tret\n"
    (a1, s1), (a2, s2) = jasmapi.rewritten_input_results({"pattern": ["ret"]}, l1, l2)
    run.count("traces_validated_against_impl")
    if s1 != "1000::mov,%rax,%rbx,|1003::ret,,|" or s2 != "1000::xor,%rax,%rbx,|1003::ret,,|":
        run.failure("record_format/input_rewritten", f"file rewritten in place (same size, same mtime) between two runs: streams {s1!r} then {s2!r}", {"kind": "lx_stream", "text": s2})
    long_listing_parser_probe(run)
    hs += [h for h in c09.harnesses(tier()) if any(x in h.name for x in ("/mem4/", "/mem3/", "/mem1/", "/mem0/", "/pair", "/mem4_nobase/", "/mem3_suffix/", "/mem0_suffix/"))]
    ch.run_harnesses(run, hs)


def presentation_edit_battery(run):
    """Listing-level edits (the lemmas above are per line): headers, section lines, labels, blank lines, indentation,
    annotations, comments and byte-column width are added / removed / changed on a base listing; the stream must not change."""
    from vlib import jasmapi

    ins = [("1000", "55", "push", "%rbp", ""), ("1001", "48 89 e5", "mov", "%rsp,%rbp", ""), ("1004", "e8 37 00 00 00", "call", "1040", " <helper>"),
           ("1009", "48 8b 05 f0 2f 00 00", "mov", "0x2ff0(%rip),%rax", "        # 4000 <data>"), ("1010", "c3", "ret", "", ""),
           ("1040", "55", "push", "%rbp", ""), ("1041", "48 89 e5", "mov", "%rsp,%rbp", ""), ("1044", "c3", "ret", "", "")]

    def render(indent="    ", header=True, sections=(0, 5), labels=(0, 5), blanks=True, annotations=True, width=21, extra_header_mid=False, comment_all=False, upper_bytes=False):
        out = []
        if header:
            out += ["", "prog:     file format elf64-x86-64", ""]
        for i, (a, b, m, o, t) in enumerate(ins):
            if i in sections:
                out += (["", ""] if blanks else []) + [f"Disassembly of section .s{i}:"] + ([""] if blanks else [])
            if extra_header_mid and i == 3:
                out += ["Disassembly of section .mid:"]
            if i in labels:
                out += [f"{int(a, 16):016x} <f{i}>:"]
            tail = t if annotations else ""
            if comment_all and not tail:
                tail = "   # note"
            text = f"{m:<6} {o}".rstrip() if o else m
            out.append(f"{indent}{a}:\t{((b.upper() if upper_bytes else b) + ' ').ljust(width)}\t{text}{tail}")
        return "\n".join(out) + "\n"

    base = jasmapi.parse_listing(render())
    variants = {
        "no file-format header": dict(header=False),
        "no section headers": dict(sections=()),
        "first section header removed": dict(sections=(5,)),
        "section header inserted mid-function": dict(extra_header_mid=True),
        "no labels": dict(labels=()),
        "labels everywhere": dict(labels=tuple(range(8))),
        "no blank lines": dict(blanks=False),
        "no indentation": dict(indent=""),
        "deep indentation": dict(indent=" " * 12),
        "no annotations/comments": dict(annotations=False),
        "comments on every line": dict(comment_all=True),
        "narrow byte column": dict(width=1),
        "wide byte column": dict(width=40),
        "headerless snippet": dict(header=False, sections=(), labels=(), blanks=False),
        "upper-case raw-byte column": dict(upper_bytes=True),
    }
    for name, kw in variants.items():
        got = jasmapi.parse_listing(render(**kw))
        run.count("traces_validated_against_impl")
        if got != base:
            run.failure(f"presentation/{name.replace(' ', '_')}", f"edit '{name}' changes the instruction stream: {got[:160]!r} vs {base[:160]!r}", {"kind": "lx_edit", "edit": name})
    # the same through the whole FILE route (what a user runs), including how the text is stored in the file, and with rule
    # options that must not make the presentation matter (sections is a binary-route option, valid_addr_range a tagging option)
    file_variants = {
        "file route": render().encode(),
        "file route, CRLF line ends": render().replace("\n", "\r\n").encode(),
        "file route, no final newline": render().rstrip("\n").encode(),
        "file route, no section headers": render(sections=()).encode(),
        "file route, section renamed": render().replace(".s0", ".text").encode(),
        "file route, no labels no blanks": render(labels=(), blanks=False).encode(),
    }
    # two objects in one dump (objdump -d a.o b.o, archives): addresses restart, byte-identical lines repeat - every
    # instruction line is an instruction of the sequence, however it is presented
    twice = jasmapi.file_route_stream((render() + render()).encode())
    twice_edit = jasmapi.file_route_stream((render() + render(indent="  ", width=30, comment_all=True)).encode())
    for nm, got in (("two objects in one dump", twice), ("two objects, second re-indented and commented", twice_edit)):
        run.count("traces_validated_against_impl")
        if got != base + base:
            run.failure(f"presentation/{nm.replace(' ', '_').replace(',', '')}", f"'{nm}': stream has {got.count('|')} instructions, expected {2 * base.count('|')} (the base listing twice)", {"kind": "lx_edit", "edit": nm})
    # symbol text is arbitrary: names that look like registers, Intel syntax or C++ signatures, on a register-free first line
    def sym_listing(sym, preamble=0):
        body = ["0000000000001189 <main>:", f"    1189:\te8 12 ff ff ff       \tcall   10a0{(' <' + sym + '>') if sym else ''}", "    118e:\t48 b8 88 77 66 55 44 \tmovabs $0x1122334455667788,%rax", "    1195:\t33 22 11 ", "    1198:\t48 89 c3             \tmov    %rax,%rbx", "    119b:\tc3                   \tret"]
        pre = ["", "prog:     file format elf32-i386", "", "Disassembly of section .init:", "", "Disassembly of section .text:", ""] + [f"{0x1000 + i:016x} <alias{i}>:" if i % 2 else "" for i in range(preamble)]
        return "\n".join(pre + body) + "\n"
    ref = jasmapi.file_route_stream(sym_listing(None))
    for sym in ("__x86.get_pc_thunk.bx", "std::to_string[abi:cxx11](int)", "eax", "DWORD PTR [rax+rbx*4]", "operator new(unsigned long)@plt", "a,b|c::d"):
        try:
            got = jasmapi.file_route_stream(sym_listing(sym))
        except Exception as e:
            got = f"{type(e).__name__}: {e}"
        run.count("traces_validated_against_impl")
        if got != ref:
            run.failure("presentation/symbol_text", f"annotation <{sym}> on a register-free first line changes the result: {got[:120]!r} vs {ref[:120]!r}", {"kind": "lx_edit", "edit": "symbol " + sym})
    # labels with nested template arguments (objdump -C): a label line is never an instruction
    lab = sym_listing(None).replace("0000000000001189 <main>:", "0000000000001189 <std::vector<int, std::allocator<int> >::size() const>:\n0000000000001189 <a> b>:")
    try:
        got = jasmapi.file_route_stream(lab)
    except Exception as e:
        got = f"{type(e).__name__}: {e}"
    run.count("traces_validated_against_impl")
    if got != ref:
        run.failure("presentation/label_text", f"labels with nested template arguments change the result: {got[:160]!r} vs {ref[:160]!r}", {"kind": "lx_edit", "edit": "label text"})
    # an object file's function at address 0, with and without indentation
    zero = ["0000000000000000 <f>:"] + [f"{ind}{a}:\t{b:<21}\t{t}" for ind in ("   ",) for a, b, t in (("0", "55", "push   %rbp"), ("1", "48 89 e5", "mov    %rsp,%rbp"), ("4", "c3", "ret"))]
    zref = jasmapi.file_route_stream("\n".join(zero) + "\n")
    for ind in ("", " ", "        "):
        got = jasmapi.file_route_stream("\n".join([zero[0]] + [ind + l.lstrip(" ") for l in zero[1:]]) + "\n")
        run.count("traces_validated_against_impl")
        if got != zref or zref != "0::push,%rbp,|1::mov,%rsp,%rbp,|4::ret,,|":
            run.failure("presentation/indentation_at_address_0", f"function at address 0 with indentation {ind!r}: {got!r}, expected '0::push,%rbp,|1::mov,%rsp,%rbp,|4::ret,,|'", {"kind": "lx_edit", "edit": "indentation at address 0"})
    for k in (15, 30, 60):
        try:
            got = jasmapi.file_route_stream(sym_listing("helper", preamble=k))
        except Exception as e:
            got = f"{type(e).__name__}: {e}"
        run.count("traces_validated_against_impl")
        if got != ref:
            run.failure("presentation/long_preamble", f"{k} label / blank lines before the first instruction change the result: {got[:160]!r} vs {ref[:160]!r}", {"kind": "lx_edit", "edit": f"preamble {k}"})
    for opt_name, cfgdoc in (("", None), (" with config.sections", {"config": {"sections": [".s5"]}, "pattern": ["zzzz"]})):
        for name, data in file_variants.items():
            got = jasmapi.file_route_stream(data, cfgdoc)
            run.count("traces_validated_against_impl")
            if got != base:
                nm = name + opt_name
                run.failure(f"presentation/{nm.replace(' ', '_').replace(',', '')}", f"edit '{nm}' changes the instruction stream: {got[:160]!r} vs {base[:160]!r}", {"kind": "lx_edit", "edit": nm})


def c16_extra(ctx):
    run = ctx.run
    stream_context_probe(run, "presentation")
    presentation_edit_battery(run)
    long_listing_parser_probe(run)   # incl. the listing shifted by blank lines: batch / chunk borders must not matter
    from checks import c18
    from vlib import ch

    # wrapping a long instruction over a byte-continuation line must not add anything to the stream,
    # also when the rule configures an address range (a second observer in the chain)
    chain = [h for h in c18.harnesses(tier()) if h.name == "c18/chain"]
    for h in chain:
        h.key = "filter_chain"
    ch.run_harnesses(run, chain)
    # a label line is never an instruction whatever its symbol text (arbitrary printable symbol)
    seg = [(0, "[0-9a-f]{1,16} <[ -~]*>:")]
    check_noninstruction(ctx, "label_any_symbol", seg, "non_label")


def replay(rec):
    if rec.get("kind") in ("lx_long", "lx_edit", "lx_stream"):
        print("listing-level probe: re-run the check;", {k: v for k, v in rec.items() if k in ("edit", "n", "text")})
        return 1
    line = rec["line"]
    got = real_parse(line)
    exp = intended(line, [tuple(x) for x in rec["segs"]]) if rec.get("segs") else None
    print("line:", repr(line))
    print("real parse_line ->", got)
    print("intended (addr, token1, token2) ->", exp)
    lemma = rec.get("lemma", "")
    if lemma == "REJECT":
        return 1 if got[0] == "INS" and got[2] != "empty" else 0
    if lemma == "SEPFREE":
        return 1 if got[0] == "INS" and any(x in got[2] for x in (",", "|", "::")) else 0
    if lemma == "OPERANDS":
        return 0 if operands_ok(got, exp) else 1
    if lemma == "SEPFREE-ANY":
        return 1 if got[0] == "INS" and any(x in f for f in [got[1], got[2]] + list(got[3]) for x in (",", "|", "::")) else 0
    return 0 if extraction_ok(got, exp) else 1
