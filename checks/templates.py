"""Template grammars (the enumerated 'programs' axis) for the RX properties C01-C04, C07, C11.

Every generator returns a list of template dicts (see vlib/lemmas.py).  `feature` isolates the
DSL feature a template exercises, so that a known finding about one feature can never hide a
regression in another.
"""
import itertools
import random

V_MNEM = ["mov", "ov", "movl", "a", "b", "ab"]  # a name, a proper substring, an extension, 1-letter names, overlap
V_OPS = ["a", "b", "ab"]
V_OPS_FULL = ["a", "b", "ab", "rax", "ax", "0x1"]
FLAGS = [(False, False), (True, False), (False, True), (True, True)]
FM = {"mnemonics-full-match": True, "operands-full-match": True}


def cfg(mf, of):
    c = {}
    if mf:
        c["mnemonics-full-match"] = True
    if of:
        c["operands-full-match"] = True
    return c


def doc_of(pattern, mf=False, of=False, extra=None):
    d = {}
    c = cfg(mf, of)
    if c:
        d["config"] = c
    d["pattern"] = pattern
    if extra:
        d.update(extra)
    return d


def item(m, ops=()):
    return {m: list(ops)} if ops else m


def ftag(mf, of):
    return f"m{int(mf)}o{int(of)}"


def with_twin(tpl, pattern):
    """wrong-spec twin: the first mnemonic name of the pattern is changed"""
    import copy

    tw = copy.deepcopy(pattern)

    def first_leaf(node):
        if isinstance(node, str):
            return None
        return node

    x = tw[0]
    if isinstance(x, str):
        tw[0] = "zzz"
    elif isinstance(x, dict) and not list(x)[0].startswith("$"):
        k = list(x)[0]
        tw[0] = {("zzz" if kk == k else kk): v for kk, v in x.items()}
    else:
        tw.insert(0, "zzz")
    tpl["twin"] = tw
    tpl["lemmas"] = tuple(tpl.get("lemmas", ("AEM", "SA", "HX", "EA", "NE", "VAL"))) + ("TWIN",)
    return tpl


# ------------------------------------------------------------------------------- C01
def gamma1(tier, seed):
    rnd = random.Random(seed)
    out = []
    ops_vocab = V_OPS if tier == "quick" else V_OPS_FULL
    kmax = 2 if tier == "quick" else 3
    n = 0
    for mf, of in FLAGS:
        for m in V_MNEM:
            for k in range(kmax + 1):
                for ops in itertools.product(ops_vocab, repeat=k):
                    if tier == "thorough" and k == 3 and rnd.random() > 0.5:
                        continue
                    pat = [item(m, ops)]
                    t = {"id": f"g1/{ftag(mf,of)}/{m}({','.join(ops)})", "doc": doc_of(pat, mf, of), "feature": "item"}
                    n += 1
                    if n % 10 == 0:
                        with_twin(t, pat)
                    out.append(t)
    nseq = 120 if tier == "quick" else 4000
    for i in range(nseq):
        mf, of = rnd.choice(FLAGS)
        length = rnd.choice([2, 2, 3]) if tier == "quick" else rnd.choice([2, 3, 3, 4])
        pat = []
        for _ in range(length):
            k = rnd.choice([0, 1, 1, 2, 3])
            pat.append(item(rnd.choice(V_MNEM), [rnd.choice(V_OPS_FULL) for _ in range(k)]))
        t = {"id": f"g1/seq{i}/{ftag(mf,of)}/{pat}", "doc": doc_of(pat, mf, of), "feature": "item_sequence"}
        if i % 10 == 0:
            with_twin(t, pat)
        out.append(t)
    # operand names of the form <hex>h (handled by a dedicated branch of the compiler)
    for mf, of in FLAGS:
        for ops in (["ah"], ["10h"], ["bh", "b"], ["a", "ch"], ["A3h"], ["Fh", "b"]):
            pat = [item("mov", ops), "a"]
            out.append({"id": f"g1/hexh/{ftag(mf,of)}/{ops}", "doc": doc_of(pat, mf, of), "feature": "hexh_operand"})
            # regression guard for the documented rewriting itself: <hex>h must behave exactly like the name 0x<hex>
            rew = [("0x" + o[:-1]) if o.endswith("h") else o for o in ops]
            out.append({"id": f"g1/hexh_rewritten/{ftag(mf,of)}/{ops}", "doc": doc_of(pat, mf, of), "pattern": [item("mov", rew), "a"], "feature": "hexh_rewritten"})
    # integer-valued names (YAML ints) take the same path as strings
    for mf, of in FLAGS:
        pat = [{"mov": [0, "a"]}, {"add": [10]}]
        out.append({"id": f"g1/int/{ftag(mf,of)}", "doc": doc_of(pat, mf, of), "feature": "item"})
    return out


# ------------------------------------------------------------------------------- C02
def times_values(tier):
    ints = [0, 1, 2, 3, 4, 5, 6] if tier == "thorough" else [0, 1, 2, 3]
    hi = 4 if tier == "thorough" else 2
    ranges = [(a, b) for a in range(0, hi + 1) for b in range(a, hi + 1)]
    if tier == "thorough":
        ranges += [(0, 5), (2, 6), (1, 7)]
    return ints, ranges


def gamma2(tier, seed):
    out = []
    ints, ranges = times_values(tier)
    bodies = [
        ("item", lambda t: {"mov": {"times": t}}, "mov"),  # times inside the body
        ("item_sib", lambda t: {"mov": ["a"], "times": t}, {"mov": ["a"]}),  # sibling key
        ("and", lambda t: {"$and": ["mov", "add"], "times": t}, {"$and": ["mov", "add"]}),
        ("or", lambda t: {"$or": ["mov", {"add": ["a"]}], "times": t}, {"$or": ["mov", {"add": ["a"]}]}),
        ("anyorder", lambda t: {"$and_any_order": ["mov", "add"], "times": t}, {"$and_any_order": ["mov", "add"]}),
        ("not", lambda t: {"$not": ["mov"], "times": t}, {"$not": ["mov"]}),
        ("or1", lambda t: {"$or": ["mov"], "times": t}, {"$or": ["mov"]}),
        ("and1", lambda t: {"$and": [{"mov": ["a"]}], "times": t}, {"$and": [{"mov": ["a"]}]}),
        ("anyorder1", lambda t: {"$and_any_order": ["mov"], "times": t}, {"$and_any_order": ["mov"]}),
        ("and3", lambda t: {"$and": ["mov", {"add": ["a"]}, "sub"], "times": t}, {"$and": ["mov", {"add": ["a"]}, "sub"]}),
        ("or_of_and", lambda t: {"$or": [{"$and": ["mov", "add"]}, "sub"], "times": t}, {"$or": [{"$and": ["mov", "add"]}, "sub"]}),
    ]
    # a sequence whose first and last children are themselves groups (the quantifier must bind the WHOLE sequence)
    # a repeated group whose only member is itself repeated: counters nest, they do not multiply out to one range
    nested = ("and1_inner_times", lambda t: {"$and": [{"mov": {"times": 2}}], "times": t}, {"$and": [{"mov": {"times": 2}}]})
    and_of_ors = ("and_of_ors", lambda t: {"$and": [{"$or": ["mov", "sub"]}, {"$or": ["add", "xor"]}], "times": t}, {"$and": [{"$or": ["mov", "sub"]}, {"$or": ["add", "xor"]}]})
    if tier == "quick":
        bodies = bodies[:9]
    bodies.append(and_of_ors)
    bodies.append(nested)
    for kind, mk, plain in bodies:
        feat = f"times_{kind}"
        # (three or more repetitions of an alternation of sequences are beyond z3 within the timeout: bound n <= 2 there)
        ints_k = [n for n in ints if n <= 2] if kind == "or_of_and" else ints
        for n in ints_k:
            pat = ["push", mk(n), "ret"]
            t = {"id": f"g2/{kind}/n={n}", "doc": doc_of(pat), "feature": feat}
            if n == 2:
                tw = ["push", mk(3), "ret"]
                t["twin"] = tw
                t["lemmas"] = ("AEM", "SA", "HX", "EA", "NE", "VAL", "TWIN")
            out.append(t)
            if n >= 1:
                # n written copies must be interchangeable with times: n (both are checked against the same spec)
                pat2 = ["push"] + [plain] * n + ["ret"]
                out.append({"id": f"g2/{kind}/copies={n}", "doc": doc_of(pat2), "pattern": pat, "feature": f"copies_{kind}"})
        for a, b in (ranges if kind != "or_of_and" else [r for r in ranges if r[1] <= 2]):
            pat = ["push", mk({"min": a, "max": b}), "ret"]
            t = {"id": f"g2/{kind}/min={a},max={b}", "doc": doc_of(pat), "feature": feat}
            if (a, b) == (1, 2):
                t["twin"] = ["push", mk({"min": a, "max": b + 1}), "ret"]
                t["lemmas"] = ("AEM", "SA", "HX", "EA", "NE", "VAL", "TWIN")
            out.append(t)
        # repeated group in trailing and leading position (no sentinel on one side)
        out.append({"id": f"g2/{kind}/trailing", "doc": doc_of(["push", mk({"min": 1, "max": 2})]), "feature": feat})
        out.append({"id": f"g2/{kind}/leading", "doc": doc_of([mk(2), "ret"]), "feature": feat + ("_leading" if kind == "not" else "")})
        if tier == "thorough" or kind in ("item", "item_sib", "not", "or1", "and1", "anyorder1"):
            # (multi-child groups after an optional item take z3 minutes: thorough tier only)
            out.append({"id": f"g2/{kind}/after_optional", "doc": doc_of([{"push": {"times": {"min": 0, "max": 1}}}, mk({"min": 1, "max": 2}), "ret"]), "feature": feat + ("_leading" if kind == "not" else ""), "timeout_ms": 240000 if tier == "thorough" else 60000})
    # one YAML node used twice (anchor/alias: the loader hands the SAME mapping object to the compiler twice, which
    # yaml.safe_dump produces for a shared python object): both uses keep their repetition
    for kind, mk, plain in bodies:
        shared = mk(2)
        out.append({"id": f"g2/{kind}/alias2", "doc": doc_of(["push", shared, "ret", shared]), "feature": f"times_{kind}_alias"})
        shared = mk({"min": 1, "max": 2})
        out.append({"id": f"g2/{kind}/alias_range", "doc": doc_of([shared, "ret", shared, "push"]), "feature": f"times_{kind}_alias" + ("_leading" if kind == "not" else "")})
    # the bound arrives through a macro argument (times: <formal parameter>): same matcher as the literal bound
    for kind, mk, plain in bodies[:4]:
        for val, form in ((3, "p-cnt"), ({"min": 1, "max": 2}, {"min": "p-cnt", "max": 2}), ({"min": 0, "max": 2}, {"min": 0, "max": "p-cnt"})):
            cnt = val if isinstance(val, int) else (val["min"] if form["min"] == "p-cnt" else val["max"])
            macros = [{"name": "@rep", "args": ["p-cnt"], "pattern": [mk(form)]}]
            doc = doc_of(["push", {"@rep": None, "p-cnt": cnt}, "ret"], extra={"macros": macros})
            out.append({"id": f"g2/{kind}/macro_arg/{val}", "doc": doc, "pattern": ["push", mk(val), "ret"], "feature": f"times_{kind}_macro_arg"})
    # alternatives that each carry the SAME repetition: repetitions do not mix alternatives
    for t_ in (2, {"min": 1, "max": 2}):
        out.append({"id": f"g2/or_of_repeated/{t_}", "doc": doc_of(["push", {"$or": [{"mov": {"times": t_}}, {"add": {"times": t_}}]}, "ret"]), "feature": "times_inside_or_alternatives"})
    out.append({"id": "g2/or_of_repeated_groups", "doc": doc_of(["push", {"$or": [{"$and": ["mov", "add"], "times": 2}, {"$not": ["mov"], "times": 2}]}, "ret"]), "feature": "times_inside_or_alternatives", "lemmas": ("AEM", "EA", "NE", "VAL")})
    # a ranged repetition INSIDE the argument of a $not (followed by something): every run length counts
    for kind, mk, plain in bodies[:4]:
        out.append({"id": f"g2/{kind}/inside_not", "doc": doc_of(["push", {"$not": [{"$and": [mk({"min": 1, "max": 3}), "ret"]}]}, "call"]), "feature": f"times_{kind}_inside_not", "lemmas": ("AEM", "EA", "NE", "VAL")})
    # the sibling-key spelling for an operand-less item: the body is an empty list / empty mapping (the only way to write it)
    for t_ in (2, 3, {"min": 0, "max": 2}, {"min": 1, "max": 2}):
        for nm, body in (("list", []), ("map", {})):
            out.append({"id": f"g2/item_empty_body_{nm}/{t_}", "doc": doc_of(["push", {"mov": body, "times": t_}, "ret"]), "pattern": ["push", {"mov": {"times": t_}}, "ret"], "feature": "times_item_sib_empty_body"})
    # full-match flags do not interact with repetition
    out.append({"id": "g2/item/fm", "doc": doc_of(["push", {"mov": ["a"], "times": {"min": 0, "max": 2}}, "ret"], True, True), "feature": "times_item_sib"})
    for mf, of in ((True, False), (False, True)):
        out.append({"id": f"g2/item/fm/{ftag(mf,of)}", "doc": doc_of(["push", {"mov": {"times": 2}}, {"mov": ["a"], "times": {"min": 1, "max": 2}}, "ret"], mf, of), "feature": "times_item_flags"})
        out.append({"id": f"g2/or/fm/{ftag(mf,of)}", "doc": doc_of(["push", {"$or": ["mov", {"add": ["a"]}], "times": 2}, "ret"], mf, of), "feature": "times_or"})
    for t in out:
        t.setdefault("e2e_absent", True)
    return out


# ------------------------------------------------------------------------------- C03
OPS3 = ["$and", "$or", "$and_any_order"]


def _nest(depth, leaves, width, rnd):
    """random nesting of the three operators over `leaves`"""
    op = rnd.choice(OPS3)
    kids = []
    for _ in range(width):
        if depth > 1 and rnd.random() < 0.5:
            kids.append(_nest(depth - 1, leaves, 2, rnd))
        else:
            kids.append(rnd.choice(leaves))
    return {op: kids}


def _count_perm(node):
    """largest number of permutations an any-order node in `node` generates"""
    if isinstance(node, dict):
        name = list(node)[0]
        body = node[name]
        m = 1
        if isinstance(body, list):
            for x in body:
                m = max(m, _count_perm(x))
            if name == "$and_any_order":
                import math

                m = max(m, math.factorial(len(body)))
        return m
    return 1


def _leaves(node):
    if isinstance(node, dict):
        name = list(node)[0]
        if name.startswith("$"):
            return sum(_leaves(x) for x in node[name])
    return 1


def gamma3(tier, seed):
    rnd = random.Random(seed + 3)
    out = []
    leaves = ["b", "c", {"b": ["x"]}, {"mov": ["a", "b"]}, "ab"]
    # exhaustive depth 1, width 2-3, instruction level
    for op in OPS3:
        for width in (2, 3):
            for kids in itertools.product(["b", "c", {"b": ["x"]}], repeat=width):
                node = {op: list(kids)}
                fm = op == "$and_any_order" and width >= 3
                pat = ["a", node, "d"]
                out.append({"id": f"g3/ins/{op}/{kids}", "doc": doc_of(pat, fm, fm), "feature": f"ins_{op[1:]}"})
    # exhaustive depth 2 (binary)
    for op1 in OPS3:
        for op2 in OPS3:
            for pos in (0, 1):
                inner = {op2: ["b", "c"]}
                kids = ["e", inner] if pos else [inner, "e"]
                pat = ["a", {op1: kids}, "d"]
                out.append({"id": f"g3/ins2/{op1}/{op2}/{pos}", "doc": doc_of(pat), "feature": "ins_nested"})
    n = 40 if tier == "quick" else 1500
    depth = 2 if tier == "quick" else 3
    for i in range(n):
        node = _nest(depth, leaves, rnd.choice([2, 2, 3]), rnd)
        fm = _count_perm(node) > 2 or _leaves(node) >= 5
        pat = ["a", node, "d"]
        t = {"id": f"g3/rnd{i}/{node}", "doc": doc_of(pat, fm, fm), "feature": "ins_nested", "lemmas": ("AEM", "EA", "VAL"), "timeout_ms": 30000}
        out.append(t)
    # operand level: alternatives / orderings of operands inside one instruction
    for op in OPS3:
        for width in (2, 3):
            kids = ["x", "y", "z"][:width]
            fm = op == "$and_any_order" and width >= 3
            for tail in ([], ["c"]):
                pat = [{"mov": [{op: kids}] + tail}, "d"]
                out.append({"id": f"g3/op/{op}/{width}/{tail}", "doc": doc_of(pat, fm, fm), "feature": f"op_{op[1:]}"})
            pat = [{"mov": ["c", {op: kids}]}, "d"]
            out.append({"id": f"g3/op/{op}/{width}/after", "doc": doc_of(pat, fm, fm), "feature": f"op_{op[1:]}"})
    # an alternative that carries a repetition next to plain ones
    out.append({"id": "g3/ins/or_mixed_repeated", "doc": doc_of(["a", {"$or": ["b", {"c": {"times": 2}}]}, "d"]), "feature": "ins_or_with_repeated_alternative"})
    out.append({"id": "g3/ins/or_mixed_optional", "doc": doc_of(["a", {"$or": ["e", {"c": {"times": {"min": 0, "max": 2}}}]}, "d"]), "feature": "ins_or_with_repeated_alternative"})
    # alternatives whose names contain one another, under every full-match setting (no alternative is "unreachable")
    for mf, of in FLAGS:
        out.append({"id": f"g3/ins/or_contained_names/{ftag(mf,of)}", "doc": doc_of(["a", {"$or": ["b", "ab", "abc"]}, "d"], mf, of), "feature": "ins_or_contained_names"})
        out.append({"id": f"g3/op/or_contained_names/{ftag(mf,of)}", "doc": doc_of([{"mov": [{"$or": ["x", "xy"]}, "c"]}, "d"], mf, of), "feature": "op_or_contained_names"})
    out.append({"id": "g3/ins/anyorder_or_contained_names", "doc": doc_of(["a", {"$and_any_order": [{"$or": ["b", "bc"]}, "e"]}, "d"], True, False), "feature": "ins_or_contained_names"})
    # a repeated sequence whose first AND last children are operator groups (instruction and operand level)
    AO = {"$and": [{"$or": ["b", "c"]}, {"$or": ["e", "f"]}], "times": 2}
    out.append({"id": "g3/ins/and_of_ors_times", "doc": doc_of(["a", AO, "d"]), "feature": "ins_and_of_groups_repeated"})
    out.append({"id": "g3/ins/and_of_anyorders_times", "doc": doc_of(["a", {"$and": [{"$and_any_order": ["b", "c"]}, {"$or": ["e", "f"]}], "times": {"min": 1, "max": 2}}, "d"]), "feature": "ins_and_of_groups_repeated"})
    # the documented <hex>h operand spelling inside operand-level operators: must behave exactly like the name 0x<hex>
    for op in OPS3:
        for kids in (["10h", "20h"], ["rbx", "3h"], ["ah", "b"]):
            rew = [("0x" + o[:-1]) if o.endswith("h") and o != "b" else o for o in kids]
            for of_ in (False, True):
                pat = [{"mov": [{op: kids}, "c"]}, "d"]
                out.append({"id": f"g3/op_hexh/{op}/{kids}/o{int(of_)}", "doc": doc_of(pat, False, of_), "pattern": [{"mov": [{op: rew}, "c"]}, "d"], "feature": "op_hexh_rewritten"})
    # integer-valued operand names (YAML ints, 0 included) as direct children of operand-level operators: same as the string
    for op in OPS3:
        for kids in ([0, 7], ["x", 0], [0, "x"], [10, 0, "x"]):
            if op == "$and_any_order" and len(kids) > 2:
                continue
            strs = [str(k) for k in kids]
            for tail in ([], ["c"]):
                pat = [{"mov": [{op: kids}] + tail}, "d"]
                out.append({"id": f"g3/op_int/{op}/{kids}/{tail}", "doc": doc_of(pat), "pattern": [{"mov": [{op: strs}] + tail}, "d"], "feature": "op_int_names"})
    out.append({"id": "g3/op_int/nested", "doc": doc_of([{"mov": [{"$or": ["x", {"$and": [0, "y"]}]}, 0]}, "d"]), "pattern": [{"mov": [{"$or": ["x", {"$and": ["0", "y"]}]}, "0"]}, "d"], "feature": "op_int_names"})
    pat = [{"mov": [{"$and_any_order": ["c", {"$or": ["10h", "20h"]}]}]}, "d"]
    out.append({"id": "g3/op_hexh/nested", "doc": doc_of(pat), "pattern": [{"mov": [{"$and_any_order": ["c", {"$or": ["0x10", "0x20"]}]}]}, "d"], "feature": "op_hexh_rewritten"})
    for op1 in OPS3:
        for op2 in OPS3:
            pat = [{"mov": [{op1: ["x", {op2: ["y", "z"]}]}, "c"]}, "d"]
            out.append({"id": f"g3/op2/{op1}/{op2}", "doc": doc_of(pat), "feature": "op_nested"})
    # a $deref next to plain operands inside an operand-level operator (typing context must not leak between siblings)
    D = {"$deref": {"main_reg": "rsp", "constant_offset": "0x8"}}
    for op in OPS3:
        for kids, nm in (([D, "rbx"], "deref_first"), (["rbx", D], "deref_last"), ([D, "rbx", "rcx"], "deref_first3")):
            if op == "$and_any_order" and len(kids) > 2:
                continue
            pat = [{"mov": [{op: kids}, "rax"]}, "d"]
            out.append({"id": f"g3/op_deref/{op}/{nm}", "doc": doc_of(pat), "feature": "op_with_deref", "domain": "att_mem", "lemmas": ("AEM", "EA", "NE", "VAL")})
    out.append({"id": "g3/op_deref/two_derefs", "doc": doc_of([{"mov": [{"$or": [D, {"$deref": {"main_reg": "rbp"}}]}, {"$or": ["rax", D]}]}, "d"]), "feature": "op_with_deref", "domain": "att_mem", "lemmas": ("AEM", "EA", "NE", "VAL")})
    # alternatives inside a $deref field (the list form the test-suite uses)
    for fld, alts in (("main_reg", ["rsp", "rbp"]), ("main_reg", ["%rax", "rbx", "rcx"])):
        d = {"$deref": {fld: [{"$or": alts}], "constant_offset": "0x8"}}
        pat = [{"mov": [d, "c"]}, "d"]
        out.append({"id": f"g3/deref_or/{alts}", "doc": doc_of(pat), "feature": "deref_or", "domain": "att_mem", "lemmas": ("AEM", "EA", "NE", "VAL")})
    d = {"$deref": {"main_reg": "rax", "register_multiplier": [{"$or": ["rbx", "rcx"]}], "constant_multiplier": 4}}
    out.append({"id": "g3/deref_or/index", "doc": doc_of([{"lea": [d]}, "d"]), "feature": "deref_or", "domain": "att_mem", "lemmas": ("AEM", "EA", "NE", "VAL")})
    # any-order groups with >= 3 children in SUBSTRING mode, decided over a finite mnemonic vocabulary that contains the
    # children's names, extensions of them and an unrelated name (the unrestricted complement does not terminate in z3)
    for kids in (["b", "c", "ab"], ["b", "b", "c"], ["b", "ab", "bc", "c"], ["mov", "movz", "push"]):
        vocab = sorted(set(kids) | {"a", "d", "abc", "x", "bb"})
        pat = ["a", {"$and_any_order": list(kids)}, "d"]
        out.append({"id": f"g3/ins/anyorder_small/{kids}", "doc": doc_of(pat), "feature": "ins_and_any_order_small_domain", "lemmas": ("AEM", "EA"), "domain": ["small_mnemonics", vocab]})
        pat = [{"$and_any_order": list(kids), "times": 2}, "d"]
        out.append({"id": f"g3/ins/anyorder_small_times/{kids}", "doc": doc_of(pat), "feature": "ins_and_any_order_small_domain", "lemmas": ("AEM",), "domain": ["small_mnemonics", vocab]})
    # 4 children with OVERLAPPING names in substring mode: one instruction must not stand for two children
    pat = [{"$and_any_order": ["mov", "movz", "push", "pop"]}, "d"]
    out.append({"id": "g3/ins/anyorder4_overlap", "doc": doc_of(pat), "feature": "ins_and_any_order4", "lemmas": ("AEM",), "domain": "small_mnemonics", "timeout_ms": 300000 if tier == "thorough" else 90000})
    if tier == "thorough":
        # 4 children = 24 permutations
        pat = ["a", {"$and_any_order": ["b", "c", "e", "f"]}, "d"]
        out.append({"id": "g3/ins/anyorder4", "doc": doc_of(pat, True, True), "feature": "ins_and_any_order", "lemmas": ("AEM", "EA", "VAL"), "timeout_ms": 300000})
        pat = [{"mov": [{"$and_any_order": ["w", "x", "y", "z"]}]}, "d"]
        out.append({"id": "g3/op/anyorder4", "doc": doc_of(pat, True, True), "feature": "op_and_any_order", "lemmas": ("AEM", "EA", "VAL"), "timeout_ms": 300000})
    for i, t in enumerate(out):
        if i % 12 == 0 and "twin" not in t:
            with_twin(t, t["doc"]["pattern"])
    for t in out:
        t.setdefault("e2e_absent", True)
    return out


# ------------------------------------------------------------------------------- C04
def gamma4(tier, seed):
    out = []
    args = [
        ("item", "mov"),
        ("item_ops", {"mov": ["a"]}),
        ("or", {"$or": ["mov", "add"]}),
        ("and", {"$and": ["mov", "add"]}),  # multi-instruction argument: still consumes ONE instruction
        ("and3", {"$and": ["mov", {"add": ["a"]}, "sub"]}),
        ("notnot", {"$not": ["mov"]}),
        ("notnot_and", {"$not": [{"$and": ["mov", "add"]}]}),
        ("not_times", {"mov": {"times": 2}}),
        ("anyorder", {"$and_any_order": ["mov", "add"]}),
        # a RANGED repetition inside a sequence in the argument: every length of the run counts, not only the shortest
        ("or_times", {"$or": ["mov", "add"], "times": 2}),
        ("and_ranged", {"$and": [{"mov": {"times": {"min": 1, "max": 3}}}, "add"]}),
        ("or_ranged_in_and", {"$and": [{"$or": ["mov", "sub"], "times": {"min": 1, "max": 2}}, "add"]}),
    ]
    if tier == "quick":
        args = args[:5] + [a for a in args if a[0] in ("notnot_and", "and_ranged", "or_times")]
    for an, X in args:
        N = {"$not": [X]}
        if an in ("and_ranged", "or_ranged_in_and") and tier == "quick":
            # heavy arguments: the three basic positions only (repeated / doubled variants in the thorough tier)
            out.append({"id": f"g4/leading/{an}", "doc": doc_of([N, "call"]), "feature": "not_leading"})
            out.append({"id": f"g4/inner/{an}", "doc": doc_of(["push", N, "call"]), "feature": "not_inner"})
            out.append({"id": f"g4/trailing/{an}", "doc": doc_of(["push", N]), "feature": "not_trailing"})
            continue
        out.append({"id": f"g4/leading/{an}", "doc": doc_of([N, "call"]), "feature": "not_leading"})
        out.append({"id": f"g4/inner/{an}", "doc": doc_of(["push", N, "call"]), "feature": "not_inner"})
        out.append({"id": f"g4/trailing/{an}", "doc": doc_of(["push", N]), "feature": "not_trailing"})
        out.append({"id": f"g4/double/{an}", "doc": doc_of(["push", N, N, "call"]), "feature": "not_inner"})
        for t in (2, {"min": 1, "max": 2}, {"min": 0, "max": 1}):
            out.append({"id": f"g4/repeated/{an}/{t}", "doc": doc_of(["push", {"$not": [X], "times": t}, "call"]), "feature": "not_repeated"})
        out.append({"id": f"g4/in_or/{an}", "doc": doc_of(["push", {"$or": [N, "ret"]}, "call"]), "feature": "not_inner"})
        # leading AND repeated: the anchoring lemmas SA/HX are about the first repetition
        for t in (2, {"min": 1, "max": 2}):
            out.append({"id": f"g4/leading_repeated/{an}/{t}", "doc": doc_of([{"$not": [X], "times": t}, "call"]), "feature": "not_leading_repeated"})
    out.append({"id": "g4/inner/fm", "doc": doc_of(["push", {"$not": ["mov"]}, "call"], True, True), "feature": "not_inner"})
    # operand level
    for pos, ops in (
        ("first", [{"$not": ["a"]}, "b"]),
        ("middle", ["b", {"$not": ["a"]}, "c"]),
        ("last", ["b", {"$not": ["a"]}]),
        ("only", [{"$not": ["a"]}]),
    ):
        out.append({"id": f"g4/operand/{pos}", "doc": doc_of([{"mov": ops}, "call"]), "feature": "not_operand"})
    for nm, ops in (("not_in_or", [{"$or": [{"$not": ["a"]}, "b"]}, "c"]), ("not_in_and", [{"$and": [{"$not": ["a"]}, "b"]}]), ("not_in_anyorder", [{"$and_any_order": [{"$not": ["a"]}, "b"]}])):
        out.append({"id": f"g4/operand_nested/{nm}", "doc": doc_of([{"mov": ops}, {"$not": ["call"]}, "call"]), "feature": "not_operand_nested"})
    for nm, arg in (("or", {"$or": ["a", "b"]}), ("notnot", {"$not": ["a"]}), ("and_any", {"$and_any_order": ["a"]})):
        out.append({"id": f"g4/operand_group/{nm}", "doc": doc_of([{"mov": [{"$not": [arg]}, "c"]}, "call"]), "feature": "not_operand_group"})
    # a REPEATED operand-level $not followed by a named operand (the repetition gives operands back when it must)
    for t_ in ({"min": 0, "max": 2}, {"min": 1, "max": 2}, 2):
        out.append({"id": f"g4/operand_repeated/{t_}", "doc": doc_of([{"imul": [{"$not": ["a"], "times": t_}, "b"]}, "call"]), "feature": "not_operand_repeated"})
    # an operand-level $not next to a $deref operand (either side): the sibling's kind must not change what $not consumes
    D4 = {"$deref": {"main_reg": "rbp", "constant_offset": "0x8"}}
    for nm, ops in (("after_deref", [D4, {"$not": ["rax"]}]), ("before_deref", [{"$not": ["rax"]}, D4]), ("between_derefs", [D4, {"$not": ["rax"]}, {"$deref": {"main_reg": "rsi"}}])):
        out.append({"id": f"g4/operand_deref/{nm}", "doc": doc_of([{"mov": ops}, "ret"]), "feature": "not_operand_with_deref", "domain": "att_mem", "lemmas": ("AEM", "EA", "NE", "VAL")})
    with_twin(out[1], out[1]["doc"]["pattern"])
    with_twin(out[2], out[2]["doc"]["pattern"])
    for t in out:
        t.setdefault("e2e_absent", True)
    # "every argument X": an argument that uses capture groups of its own (X = "mov with two equal operands"). The groups are
    # local to the argument (defined inside the negative look-ahead); captures that FOLLOW the $not keep their own numbers.
    LD = ["a", "0x1", "0x10"]
    CL = ("AEM", "EA", "NE")
    out.append({"id": "g4/capt/local_pair", "doc": doc_of(["push", {"$not": [{"mov": ["&a", "&a"]}]}, "pop"]), "feature": "not_with_local_captures",
                "capture_order": ["&a"], "env_dom": {}, "local_dom": {"&a": LD}, "lemmas": CL})
    out.append({"id": "g4/capt/two_nots", "doc": doc_of(["push", {"$not": [{"mov": ["&a", "&a"]}]}, {"$not": [{"xor": ["&b", "&b"]}]}, "pop"]), "feature": "not_with_local_captures",
                "capture_order": ["&a", "&b"], "env_dom": {}, "local_dom": {"&a": LD, "&b": LD}, "lemmas": CL})
    out.append({"id": "g4/capt/then_outer_capture", "doc": doc_of([{"$not": [{"mov": ["&a", "&a"]}]}, {"push": ["&r"]}, {"pop": ["&r"]}]), "feature": "not_with_local_captures",
                "capture_order": ["&a", "&r"], "env_dom": {"&r": LD}, "local_dom": {"&a": LD}, "lemmas": CL + ("HX",)})
    out.append({"id": "g4/capt/outer_then_local", "doc": doc_of([{"push": ["&r"]}, {"$not": [{"mov": ["&a", "&a"]}]}, {"pop": ["&r"]}]), "feature": "not_with_local_captures",
                "capture_order": ["&r", "&a"], "env_dom": {"&r": LD}, "local_dom": {"&a": LD}, "lemmas": CL})
    out.append({"id": "g4/capt/local_uses_outer", "doc": doc_of([{"push": ["&r"]}, {"$not": [{"mov": ["&a", "&r", "&a"]}]}, {"pop": ["&r"]}]), "feature": "not_with_local_captures",
                "capture_order": ["&r", "&a"], "env_dom": {"&r": LD[:2]}, "local_dom": {"&a": LD}, "lemmas": CL})
    return out


# ------------------------------------------------------------------------------- C07 / C11
def load_shipped_macros():
    import os

    import yaml

    from vlib.common import REPO

    return yaml.safe_load(open(os.path.join(REPO, "tests/macros/jasm_macros.yaml")))


def gamma7(tier, seed):
    out = []
    L = ("AEM", "SA", "HX", "EA", "NE", "VAL")
    lead = [
        ("item", "mov"),
        ("item_ops", {"mov": ["a", "b"]}),
        ("or", {"$or": ["mov", {"add": ["a"]}]}),
        ("and", {"$and": ["mov", "add"]}),
        ("anyorder", {"$and_any_order": ["mov", "add"]}),
        ("opt_item", {"mov": {"times": {"min": 0, "max": 2}}}),
        ("rep_item", {"mov": ["a"], "times": {"min": 1, "max": 3}}),
        ("rep_or", {"$or": ["mov", "add"], "times": 2}),
    ]
    for nm, X in lead:
        out.append({"id": f"g7/lead/{nm}", "doc": doc_of([X, "call"]), "feature": "lead_" + nm, "lemmas": L})
        out.append({"id": f"g7/lead/{nm}/fm", "doc": doc_of([X, "call"], True, True), "feature": "lead_" + nm, "lemmas": L})
    # trailing position: the match must END at the end of an instruction record whatever the last element is
    trail = [
        ("opt_item", {"mov": {"times": {"min": 0, "max": 2}}}),
        ("opt_or1", {"$or": ["int3"], "times": {"min": 0, "max": 3}}),
        ("rep_or1", {"$or": [{"mov": ["a"]}], "times": {"min": 1, "max": 2}}),
        ("opt_and1", {"$and": ["int3"], "times": {"min": 0, "max": 2}}),
        ("opt_anyorder1", {"$and_any_order": ["int3"], "times": {"min": 0, "max": 2}}),
        ("opt_or", {"$or": ["mov", {"add": ["a"]}], "times": {"min": 0, "max": 2}}),
        ("opt_and", {"$and": ["mov", "add"], "times": {"min": 0, "max": 1}}),
        ("opt_not", {"$not": ["mov"], "times": {"min": 0, "max": 2}}),
        ("or_ops", {"$or": [{"mov": ["a", "b"]}, "add"]}),
    ]
    # the <hex>h operand spelling (any letter case) in last / only / inner operand position: still whole fields, whole records
    for ops in (["a3h"], ["A3h"], ["b", "1Fh"], ["Ch", "b"]):
        rew = [("0x" + o[:-1]) if o.endswith("h") else o for o in ops]
        out.append({"id": f"g7/hexh_end/{ops}", "doc": doc_of(["push", {"mov": ops}]), "pattern": ["push", {"mov": rew}], "feature": "hexh_alignment", "lemmas": L})
        out.append({"id": f"g7/hexh_lead/{ops}", "doc": doc_of([{"mov": ops}, "ret"]), "pattern": [{"mov": rew}, "ret"], "feature": "hexh_alignment", "lemmas": L})
    for op_ in ("$and_any_order", "$or", "$and"):
        out.append({"id": f"g7/operand_group_end/{op_}", "doc": doc_of([{"add": [{op_: ["a", "b"]}]}, "ret"]), "feature": "operand_group_end", "lemmas": L})
        out.append({"id": f"g7/operand_group_only/{op_}", "doc": doc_of([{"add": [{op_: ["a", "b"]}]}]), "feature": "operand_group_end", "lemmas": L})
    for nm, X in trail:
        out.append({"id": f"g7/trail/{nm}", "doc": doc_of(["ret", X]), "feature": "trail_" + nm, "lemmas": L})
        out.append({"id": f"g7/only/{nm}", "doc": doc_of(["ret", X, "call"]), "feature": "inner_" + nm, "lemmas": L})
    out.append({"id": "g7/lead/not", "doc": doc_of([{"$not": ["mov"]}, "call"]), "feature": "not_leading", "lemmas": L})
    out.append({"id": "g7/lead/not_times2", "doc": doc_of([{"$not": ["mov"], "times": 2}, "call"]), "feature": "not_leading_repeated", "lemmas": L})
    out.append({"id": "g7/lead/not_times12", "doc": doc_of([{"$not": ["mov"], "times": {"min": 1, "max": 2}}]), "feature": "not_leading_repeated", "lemmas": L})
    out.append({"id": "g7/lead/and_times", "doc": doc_of([{"$and": ["mov", "add"], "times": {"min": 1, "max": 2}}, "call"]), "feature": "lead_and", "lemmas": L})
    out.append({"id": "g7/lead/anyorder_times", "doc": doc_of([{"$and_any_order": ["mov", "add"], "times": 2}, "call"]), "feature": "lead_anyorder", "lemmas": L})
    out.append({"id": "g7/lead/capture_ins", "doc": doc_of(["&i", "call", "&i"]), "feature": "lead_capture", "lemmas": ("SA", "HX", "EA", "NE"), "capture_order": ["&i"], "env_dom": {"&i": ["mov,a,b", "ret,"]}})
    # an instruction capture covers ONE instruction, an operand capture ONE operand (no element spans two of them)
    out.append({"id": "g7/capture_span_ins", "doc": doc_of(["push", "&i", "ret"]), "feature": "capture_span", "lemmas": ("AEM", "EA"), "capture_order": ["&i"], "env_dom": {"&i": ["mov,a", "mov,a,|0::add,b", "mov,a,|0::add,b,|1::sub"]}})
    out.append({"id": "g7/capture_span_op", "doc": doc_of([{"mov": ["&x", "c"]}, "ret"]), "feature": "capture_span", "lemmas": ("AEM", "EA"), "capture_order": ["&x"], "env_dom": {"&x": ["a", "a,b", "a,c,|0::mov,a"]}})
    out.append({"id": "g7/lead/capture_op", "doc": doc_of([{"mov": ["&x"]}, {"add": ["&x"]}]), "feature": "lead_capture", "lemmas": ("SA", "HX", "EA", "NE"), "capture_order": ["&x"], "env_dom": {"&x": ["a", "0x10"]}})
    # operand-count mismatch: fewer / equal / more operand names than the instruction has operands
    for k in range(0, 5):
        ops = ["a", "b", "c", "d"][:k]
        out.append({"id": f"g7/nops/{k}", "doc": doc_of([item("mov", ops), "call"]), "feature": "operand_count", "lemmas": L})
        out.append({"id": f"g7/nops/{k}/fm", "doc": doc_of([item("mov", ops), "call"], True, True), "feature": "operand_count", "lemmas": L})
    for nm, arg in (("or", {"$or": ["rax", "rbx"]}), ("and_any", {"$and_any_order": ["rax"]})):
        out.append({"id": f"g7/operand_not_group/{nm}", "doc": doc_of([{"imul": [{"$not": [arg]}, "rdx"]}, "ret"]), "feature": "not_operand_group", "lemmas": L})
    # the shipped @any wildcard
    try:
        shipped = load_shipped_macros()
    except Exception:
        shipped = None
    if shipped:
        for nm, pat in (
            ("op1", [{"call": ["@any"]}, "ret"]),
            ("op2", [{"call": ["@any", "@any"]}, "ret"]),
            ("op_mixed", [{"mov": ["a", "@any"]}, "ret"]),
            ("mnem", ["@any", "ret"]),
            ("lead_mnem", ["@any"]),
        ):
            for mf, of in ((False, False), (True, True)):
                out.append({"id": f"g7/any/{nm}/{ftag(mf,of)}", "doc": doc_of(pat, mf, of), "macros": [shipped], "feature": "any_macro", "lemmas": L})
    return out


def gamma11(tier, seed):
    """multi-instruction templates with adjacent / overlapping candidate occurrences"""
    out = []
    L = ("AEM", "NE", "SA", "HX", "EA", "VAL")
    pats = [
        ["a", "a"],
        ["a", "b", "a"],
        [{"a": {"times": {"min": 1, "max": 3}}}],
        [{"$or": ["a", {"$and": ["a", "b"]}]}],
        ["a", {"$not": ["b"]}],
        [{"$and_any_order": ["a", "b"]}, "a"],
        [{"mov": ["a"]}, {"$or": ["mov", "add"], "times": {"min": 1, "max": 2}}],
        # optional parts: an occurrence may or may not contain them (the scan must report both kinds)
        [{"pop": {"times": {"min": 0, "max": 1}}}, "ret"],
        ["a", {"b": {"times": {"min": 0, "max": 2}}}, "a"],
        [{"$or": ["pop", "push"], "times": {"min": 0, "max": 1}}, "ret"],
        ["ret", {"$not": ["ret"], "times": {"min": 0, "max": 1}}],
    ]
    for i, p in enumerate(pats):
        # (the start-anchoring lemma SA of an optional leading ALTERNATION takes z3 about a minute: decided for the optional
        # leading item of the previous pattern, left out here)
        out.append({"id": f"g11/{i}/{p}", "doc": doc_of(p), "feature": "scan", "lemmas": tuple(x for x in L if not (i == 9 and x == "SA"))})
    for t in out:
        t.setdefault("e2e_absent", True)
    return out


# ------------------------------------------------------------------------------- C05
D_OP = ["a", "ab", "b", "0x1", "0x10", "%r8", "%r8d", "[%rax+0x8]"]
D_OP_QUICK = ["a", "ab", "0x1", "0x10", "%r8", "%r8d"]


def ins_text(m, ops):
    return m + "," + ",".join(ops)


def gamma5(tier, seed):
    out = []
    D = D_OP_QUICK if tier == "quick" else D_OP
    D2 = ["a", "0x1", "0x10"] if tier == "quick" else ["a", "ab", "0x1", "0x10", "%r8d"]
    L = ("AEM", "EA", "NE")

    def T(id_, pat, order, dom, feature, **kw):
        t = {"id": "g5/" + id_, "doc": doc_of(pat), "feature": feature, "capture_order": order, "env_dom": dom, "lemmas": L}
        t.update(kw)
        out.append(t)

    # ---- operand captures: one name
    T("op/define_only", [{"mov": ["&x"]}, "ret"], ["&x"], {"&x": D + [""]}, "cap_operand_define")
    # the empty text is never a binding (an operand-less instruction has one EMPTY operand field)
    T("op/empty_binding", [{"push": ["&x"]}, {"pop": ["&x"]}], ["&x"], {"&x": ["", "a"]}, "cap_operand_define")
    T("op/empty_binding_fm", [{"ret": ["&x"]}, "nop"], ["&x"], {"&x": ["", "0x8"]}, "cap_operand_define", doc=doc_of([{"ret": ["&x"]}, "nop"], True, False))
    T("op/define_second", [{"mov": ["a", "&x"]}, "ret"], ["&x"], {"&x": D}, "cap_operand_define")
    T("op/later_last", [{"mov": ["&x"]}, {"add": ["&x"]}], ["&x"], {"&x": D}, "cap_operand_later_last", lemmas=("AEM", "EA", "NE", "TWIN"), twin=[{"mov": ["&x"]}, {"add": ["zzz"]}])
    T("op/later_then_operand", [{"mov": ["&x"]}, {"add": ["&x", "b"]}, "ret"], ["&x"], {"&x": D}, "cap_operand_later_mid")
    T("op/same_instruction", [{"mov": ["&x", "&x"]}, "ret"], ["&x"], {"&x": D}, "cap_operand_later_last")
    T("op/later_first_of_two", [{"mov": ["&x"]}, {"add": ["&x", "&x"]}], ["&x"], {"&x": D}, "cap_operand_later_mid")
    T("op/later_in_or", [{"mov": ["&x"]}, {"$or": [{"add": ["&x"]}, {"sub": ["b", "&x"]}]}, "ret"], ["&x"], {"&x": D2}, "cap_operand_later_last")
    T("op/later_in_not", [{"mov": ["&x"]}, {"$not": [{"add": ["&x"]}]}, "ret"], ["&x"], {"&x": D2}, "cap_operand_later_in_not")
    T("op/later_repeated", [{"mov": ["&x"]}, {"add": ["&x"], "times": {"min": 1, "max": 2}}, "ret"], ["&x"], {"&x": D2}, "cap_operand_later_last")
    # ---- two and three names, every order of first use
    T("op/two_names", [{"mov": ["&x", "&y"]}, {"add": ["&y", "&x"]}], ["&x", "&y"], {"&x": D2, "&y": D2}, "cap_operand_later_mid")
    T("op/two_names_rev", [{"mov": ["&y"]}, {"add": ["&x"]}, {"sub": ["&x", "&y"]}], ["&y", "&x"], {"&x": D2, "&y": D2}, "cap_operand_later_mid")
    if tier == "thorough":
        D3 = ["a", "0x1", "0x10"]
        T("op/three_names", [{"mov": ["&x", "&y"]}, {"add": ["&z", "&x"]}, {"sub": ["&y", "&z"]}], ["&x", "&y", "&z"], {"&x": D3, "&y": D3, "&z": D3}, "cap_operand_later_mid")
        T("op/three_names_b", [{"mov": ["&z"]}, {"add": ["&y"]}, {"sub": ["&x"]}, {"xor": ["&x", "&y", "&z"]}], ["&z", "&y", "&x"], {"&x": D3, "&y": D3, "&z": D3}, "cap_operand_later_mid")
    # a repeated item WITH operands before the captures (no other capturing group may be emitted)
    T("op/after_repeated_item", [{"mov": ["a"], "times": 2}, {"mov": ["&x", "&y"]}, {"push": ["&y"]}], ["&x", "&y"], {"&x": D2, "&y": D2}, "cap_after_repeated_item")
    T("op/after_repeated_group", [{"$or": ["mov", {"add": ["a"]}], "times": {"min": 1, "max": 2}}, {"mov": ["&x"]}, {"push": ["&x"]}], ["&x"], {"&x": D2}, "cap_after_repeated_item")
    # ---- instruction captures
    DI = [ins_text("mov", [""]), ins_text("mov", ["a"]), ins_text("mov", ["a", "b"]), ins_text("movl", ["a"]), ins_text("mov", ["ab"])]
    # values that SPAN two instructions / two operands are never bindings (the compiled matcher must refuse them too)
    SPAN_I, SPAN_O = "mov,a,|0::ret", "a,b"
    T("ins/span_is_no_binding", ["push", "&i", "ret"], ["&i"], {"&i": [DI[1], SPAN_I, "mov,a,|0::mov,a,b,|0::add"]}, "cap_instruction_span", lemmas=("AEM",))
    T("ins/span_is_no_binding_twice", ["&i", "ret", "&i"], ["&i"], {"&i": [DI[1], SPAN_I]}, "cap_instruction_span", lemmas=("AEM",))
    T("op/span_is_no_binding", [{"mov": ["&x"]}, {"add": ["&x"]}], ["&x"], {"&x": ["a", SPAN_O, "a,|0::add,a"]}, "cap_operand_span", lemmas=("AEM",))
    T("ins/define_only", ["&i", "ret"], ["&i"], {"&i": DI}, "cap_instruction")
    T("ins/twice", ["&i", "&i"], ["&i"], {"&i": DI}, "cap_instruction", lemmas=("AEM", "EA", "NE", "TWIN"), twin=["&i", "zzz"])
    T("ins/separated", ["&i", "ret", "&i"], ["&i"], {"&i": DI}, "cap_instruction")
    # names that differ only in letter case are different names
    T("op/two_names_case", [{"mov": ["&Src", "&src"]}, {"add": ["&Src", "&src"]}], ["&Src", "&src"], {"&Src": D2, "&src": D2}, "cap_operand_names_case")
    T("ins/two_names_case", ["&I", "&i", "&I"], ["&I", "&i"], {"&I": DI[:2], "&i": DI[:2]}, "cap_instruction_names_case")
    T("ins/two_names", ["&i", "&j", "&i", "&j"], ["&i", "&j"], {"&i": DI[:3], "&j": DI[:3]}, "cap_instruction")
    T("ins/later_in_not", ["&i", {"$not": ["&i"]}, "ret"], ["&i"], {"&i": DI[:3]}, "cap_instruction")
    T("ins/mixed", ["&i", {"add": ["&x"]}, "&i", {"sub": ["&x"]}], ["&i", "&x"], {"&i": DI[:3], "&x": D2}, "cap_mixed")
    # ---- register families
    fams = {"genreg": list("abcd"), "indreg": ["s", "d"], "stackreg": ["sp"], "basereg": ["bp"]}
    widths = {"genreg": ["64", "32", "16", "8h", "8l"], "indreg": ["64", "32", "16", "8l"], "stackreg": ["64", "32", "16", "8l"], "basereg": ["64", "32", "16", "8l"]}
    for fam, keys in fams.items():
        nm = f"&{fam}"
        ws = widths[fam]
        for w1 in ws:
            # first occurrence with a width suffix
            T(f"reg/{fam}/first.{w1}", [{"mov": [f"{nm}.{w1}"]}, "ret"], [nm], {nm: keys}, "cap_register_first_width", domain="regs")
            for w2 in ws:
                T(f"reg/{fam}/{w1}->{w2}", [{"mov": [f"{nm}.{w1}"]}, {"add": [f"{nm}.{w2}"]}], [nm], {nm: keys}, "cap_register_later", domain="regs", lemmas=("AEM",))
        T(f"reg/{fam}/first_nosuffix", [{"mov": [nm]}, "ret"], [nm], {nm: keys}, "cap_register_first_nosuffix", domain="regs")
        T(f"reg/{fam}/as_in_tests", [{"add": [1, f"{nm}-1"]}, {"mov": [f"{nm}-1.16", f"{nm}-1.32"]}, "jmp"], [f"{nm}-1"], {f"{nm}-1": keys}, "cap_register_later_mid", domain="regs")
    # two different register captures of one family are independent (names with '-n' and with an inner dot)
    # ... and base names that themselves contain a width token (only the trailing suffix selects the width)
    for n1, n2 in (("&genreg-1", "&genreg-2"), ("&genreg.src", "&genreg.dst"), ("&indreg.a", "&indreg.b"), ("&genreg-16", "&genreg-64"), ("&indreg-32", "&indreg-8l"), ("&genreg-A", "&genreg-a")):
        keys = list("abcd") if "genreg" in n1 else ["s", "d"]
        T(f"reg/two_names/{n1}", [{"mov": [f"{n1}.64", f"{n2}.64"]}, {"push": [f"{n1}.32"]}, {"push": [f"{n2}.32"]}], [n1, n2], {n1: keys, n2: keys}, "cap_register_two_names", domain="regs", lemmas=("AEM",))
    # documented upper-case suffixes
    for nm, keys in (("&genreg-16", list("abcd")), ("&basereg-64", ["bp"]), ("&genreg-8h", list("abcd"))):
        T(f"reg/width_token_in_name/{nm}", [{"inc": [nm]}, {"push": [f"{nm}.64"]}, {"pop": [f"{nm}.16"]}, {"dec": [f"{nm}.32"]}], [nm], {nm: keys}, "cap_register_width_token_in_name", domain="regs", lemmas=("AEM",))
    T("reg/genreg/upper_8H_first", [{"mov": ["&genreg.8H"]}, {"push": ["&genreg.64"]}], ["&genreg"], {"&genreg": list("abcd")}, "cap_register_upper_suffix", domain="regs", lemmas=("AEM",), pattern=[{"mov": ["&genreg.8h"]}, {"push": ["&genreg.64"]}])
    T("reg/genreg/upper_8L_first", [{"mov": ["&genreg.8L"]}, {"add": ["&genreg.8H"]}], ["&genreg"], {"&genreg": list("abcd")}, "cap_register_upper_suffix", domain="regs", lemmas=("AEM",), pattern=[{"mov": ["&genreg.8l"]}, {"add": ["&genreg.8h"]}])
    T("reg/genreg/upper_8H", [{"mov": ["&genreg.64"]}, {"add": ["&genreg.8H"]}], ["&genreg"], {"&genreg": list("abcd")}, "cap_register_upper_suffix", domain="regs", lemmas=("AEM",), pattern=[{"mov": ["&genreg.64"]}, {"add": ["&genreg.8h"]}])
    T("reg/genreg/upper_8L", [{"mov": ["&genreg.64"]}, {"add": ["&genreg.8L"]}], ["&genreg"], {"&genreg": list("abcd")}, "cap_register_upper_suffix", domain="regs", lemmas=("AEM",), pattern=[{"mov": ["&genreg.64"]}, {"add": ["&genreg.8l"]}])
    # register capture inside a $deref
    T("reg/in_deref", [{"mov": ["&genreg.64"]}, {"add": [{"$deref": {"main_reg": "&genreg.64", "constant_offset": "0x8"}}]}], ["&genreg"], {"&genreg": list("abcd")}, "cap_register_in_deref", lemmas=("AEM",), domain="att_mem_regs")
    # the order of the keys in the $deref mapping is irrelevant, also when the fields DEFINE captures
    T("reg/first_in_deref_key_order", [{"mov": [{"$deref": {"constant_multiplier": 4, "register_multiplier": "&indreg.64", "main_reg": "&genreg.64"}}]}, {"add": ["&genreg.32", "&indreg.16"]}], ["&genreg", "&indreg"], {"&genreg": list("abcd"), "&indreg": ["s", "d"]}, "cap_register_in_deref_key_order", lemmas=("AEM",), domain="att_mem_regs")
    T("reg/first_in_deref_key_order2", [{"mov": [{"$deref": {"register_multiplier": "&indreg.64", "main_reg": "&genreg.64", "constant_multiplier": 4}}]}, {"add": ["&indreg.16"]}, {"sub": ["&genreg.32"]}], ["&genreg", "&indreg"], {"&genreg": list("abcd"), "&indreg": ["s", "d"]}, "cap_register_in_deref_key_order", lemmas=("AEM",), domain="att_mem_regs")
    T("reg/first_in_deref_offset_capture", [{"lea": [{"$deref": {"main_reg": "&genreg.64", "register_multiplier": "&indreg.64", "constant_multiplier": 8, "constant_offset": "&off"}}]}, {"mov": [{"$deref": {"main_reg": "rsp", "constant_offset": "&off"}}, "&indreg.32"]}, {"push": ["&genreg.16"]}], ["&genreg", "&indreg", "&off"], {"&genreg": ["a", "b"], "&indreg": ["s", "d"], "&off": ["0x10", "-0x8"]}, "cap_in_deref_offset", lemmas=("AEM", "TWIN"), domain="att_mem_regs", twin=[{"lea": [{"$deref": {"main_reg": "&genreg.64", "register_multiplier": "&indreg.64", "constant_multiplier": 8, "constant_offset": "&off"}}]}, {"mov": [{"$deref": {"main_reg": "rsp", "constant_offset": "&off"}}, "&indreg.32"]}, {"push": ["&genreg.32"]}])
    T("reg/after_index_only_deref", [{"mov": [{"$deref": {"main_reg": "%bx", "register_multiplier": "%si", "constant_offset": "0x10"}}]}, {"push": ["&genreg.16"]}, {"pop": ["&genreg.16"]}], ["&genreg"], {"&genreg": list("abcd")}, "cap_after_index_only_deref", lemmas=("AEM",), domain="att_mem_regs")
    T("reg/first_in_deref", [{"mov": [{"$deref": {"main_reg": "&genreg.64", "register_multiplier": "&indreg.64", "constant_multiplier": 4}}]}, {"add": ["&genreg.32", "&indreg.16"]}], ["&genreg", "&indreg"], {"&genreg": list("abcd"), "&indreg": ["s", "d"]}, "cap_register_in_deref", lemmas=("AEM",), domain="att_mem_regs")
    return out


# ------------------------------------------------------------------------------- C06
def gamma6(tier, seed):
    out = []
    L = ("AEM", "EA", "NE", "VAL")
    regs = [("%rax", "%rbx"), ("rax", "rbx"), ("%rbp", "r12")]
    scales = [1, 2, 4, 8, "4", "1"] if tier == "thorough" else [1, 4, "8"]
    # (hexadecimal constants written without 0x may consist of letters only or start with a digit: "1c", "ff", "a")
    disps = ["0x8", "8", "-0x8", "0x0", 0, 16, "0x7f", "10", "1c", "ff", "a", "0x2e9b"] if tier == "thorough" else ["0x8", "8", "-0x8", "1c", "0x0", 0, 10, 16, "ff"]
    n = 0

    def add(fields, pos, tag):
        nonlocal n
        d = {"$deref": dict(fields)}
        ops = {"first": [d, "c"], "last": ["c", d], "only": [d]}[pos]
        pat = [{"mov": ops}, "ret"]
        n += 1
        out.append({"id": f"g6/{tag}/{pos}/{n}/{fields}", "doc": doc_of(pat), "feature": "deref_" + tag, "domain": "att_mem", "lemmas": L})

    for a, b in regs:
        for pos in ("first", "last", "only"):
            add({"main_reg": a}, pos, "base")
            for k in disps:
                add({"main_reg": a, "constant_offset": k}, pos, "base_disp")
            for c in scales:
                add({"main_reg": a, "register_multiplier": b, "constant_multiplier": c}, pos, "base_index")
                for k in disps[:3]:
                    add({"main_reg": a, "register_multiplier": b, "constant_multiplier": c, "constant_offset": k}, pos, "full")
        # index without scale / scale without index: no objdump operand has these components
        add({"main_reg": a, "register_multiplier": b}, "first", "index_only")
        add({"main_reg": a, "constant_multiplier": 4}, "first", "scale_only")
        add({"main_reg": a, "register_multiplier": b, "constant_offset": "0x8"}, "first", "index_only")
    # full-match flags do not change $deref
    out.append({"id": "g6/fm", "doc": doc_of([{"mov": [{"$deref": {"main_reg": "%rax", "constant_offset": "0x8"}}, "c"]}, "ret"], True, True), "feature": "deref_base_disp", "domain": "att_mem", "lemmas": L})
    # field order in the YAML mapping is irrelevant
    out.append({"id": "g6/order", "doc": doc_of([{"mov": [{"$deref": {"constant_offset": "0x8", "constant_multiplier": 4, "register_multiplier": "%rbx", "main_reg": "%rax"}}]}, "ret"]), "feature": "deref_full", "domain": "att_mem", "lemmas": L})
    # two derefs in one instruction, and times on the deref operand's instruction
    out.append({"id": "g6/two", "doc": doc_of([{"movs": [{"$deref": {"main_reg": "%rsi"}}, {"$deref": {"main_reg": "%rdi"}}]}, "ret"]), "feature": "deref_base", "domain": "att_mem", "lemmas": L})
    for i, t in enumerate(out):
        if i % 15 == 0:
            with_twin(t, t["doc"]["pattern"])
    return out
