"""Generated macro factorings of macro-free base patterns (C13) and reference placements (C19)."""
import copy
import itertools
import random

BASES = [
    ("items", ["push", {"mov": ["a", "b"]}, "call", "ret"]),
    ("ops", [{"mov": ["rax", "rbx"]}, {"add": ["rax", "0x8"]}, "ret"]),
    ("or", ["push", {"$or": ["mov", {"add": ["a"]}]}, "ret"]),
    ("and_times", ["push", {"$and": ["mov", "add"], "times": 2}, "ret"]),
    ("anyorder", ["push", {"$and_any_order": ["mov", {"add": ["a"]}]}, "ret"]),
    ("not", ["push", {"$not": ["mov"]}, "call"]),
    ("times_in", ["push", {"mov": {"times": 2}}, "ret"]),
    ("times_sib", ["push", {"mov": ["a"], "times": {"min": 1, "max": 3}}, "ret"]),
    ("deref", [{"mov": [{"$deref": {"main_reg": "%rax", "constant_offset": "0x8"}}, "rbx"]}, "ret"]),
    ("op_or", [{"mov": [{"$or": ["rax", "rbx"]}, "rcx"]}, "ret"]),
    ("names", ["movl", {"movq": ["raxx"]}, "ret"]),
    ("times_max_only", ["push", {"mov": {"times": {"max": 2}}}, "ret", {"add": ["a"], "times": {"max": 3}}]),
    ("times_twice", ["push", {"mov": {"times": 2}}, "pop", {"mov": {"times": 3}}, "ret", "mov"]),
    ("ints", [{"mov": [0, "rax"]}, {"add": [8, "rax"]}, "ret"]),
    ("dup", ["papa", {"mov": ["0xffff", "rax"]}, "ret"]),
    ("zero", [{"$or": [{"xor": ["rax", "rax"]}, {"mov": ["rax", 0]}]}, {"$or": [{"xor": ["rbx", "rbx"]}, {"mov": ["rbx", 0]}]}, "ret"]),
]


def _paths(node, path=()):
    """all (path, subnode) in a pattern tree; paths index lists and dict values"""
    yield path, node
    if isinstance(node, list):
        for i, x in enumerate(node):
            yield from _paths(x, path + (i,))
    elif isinstance(node, dict):
        for k, v in node.items():
            if k == "times":
                continue
            yield from _paths(v, path + (k,))


def _get(node, path):
    for p in path:
        node = node[p]
    return node


def _set(root, path, value):
    node = root
    for p in path[:-1]:
        node = node[p]
    node[path[-1]] = value


def _in_list(path, root):
    return len(path) >= 1 and isinstance(_get(root, path[:-1]), list)


def _dict_items(node):
    if isinstance(node, dict):
        for k, v in node.items():
            yield k, v
            yield from _dict_items(v)
    elif isinstance(node, list):
        for x in node:
            yield from _dict_items(x)


def factorings(base, rnd, limit):
    """yield (kind, macros, pattern_with_uses) — the inlined rule is `base` by construction"""
    out = []
    paths = list(_paths(base))
    # (a) whole list element (an item, a group, an operand that is a dict) -> "@m"
    for path, sub in paths:
        if path and _in_list(path, base) and not (isinstance(sub, (str, int)) and len(path) > 1 and False):
            if isinstance(sub, (dict, str)) and not (isinstance(sub, str) and False):
                pat = copy.deepcopy(base)
                _set(pat, path, "@m1")
                out.append(("item", [{"name": "@m1", "pattern": [copy.deepcopy(sub)]}], pat))
    # (b) whole string value -> string macro
    for path, sub in paths:
        if path and isinstance(sub, str) and not sub.startswith("@"):
            pat = copy.deepcopy(base)
            _set(pat, path, "@v1")
            out.append(("value", [{"name": "@v1", "pattern": sub}], pat))
    # (c) substring of a name
    for path, sub in paths:
        if path and isinstance(sub, str) and len(sub) >= 3:
            pat = copy.deepcopy(base)
            _set(pat, path, sub[0] + "@s1" + sub[-1:])
            out.append(("substring", [{"name": "@s1", "pattern": sub[1:-1]}], pat))
    # (c1) a string macro at the very START / END of a longer name ("@arith" + "l", "j" + "@cc")
    for path, sub in paths:
        if path and isinstance(sub, str) and len(sub) >= 2 and "@" not in sub and not sub.startswith(("$", "&")):
            pat = copy.deepcopy(base)
            _set(pat, path, "@s1" + sub[-1:])
            out.append(("substring_at_start", [{"name": "@s1", "pattern": sub[:-1]}], pat))
            pat = copy.deepcopy(base)
            _set(pat, path, sub[:1] + "@s1")
            out.append(("substring_at_end", [{"name": "@s1", "pattern": sub[1:]}], pat))
    # (c2) the same string macro used TWICE inside one name
    for path, sub in paths:
        if path and isinstance(sub, str) and len(sub) >= 4:
            for ln in (2, 1):
                found = False
                for i in range(len(sub) - ln + 1):
                    part = sub[i:i + ln]
                    j = sub.find(part, i + ln)
                    if j >= 0 and "@" not in part:
                        name = sub[:i] + "@s1" + sub[i + ln:j] + "@s1" + sub[j + ln:]
                        if name.replace("@s1", part) == sub and name != "@s1":
                            pat = copy.deepcopy(base)
                            _set(pat, path, name)
                            out.append(("substring_twice", [{"name": "@s1", "pattern": part}], pat))
                            found = True
                            break
                if found:
                    break
    # (d) string macro in key position with a times body
    for path, sub in paths:
        if isinstance(sub, dict) and len(sub) == 1:
            k = list(sub)[0]
            if not k.startswith("$") and isinstance(sub[k], dict) and list(sub[k]) == ["times"]:
                pat = copy.deepcopy(base)
                _set(pat, path, {"@k1": copy.deepcopy(sub[k])})
                out.append(("key_times", [{"name": "@k1", "pattern": k}], pat))
    # (e) parameterised subtree: abstract one string leaf of a dict element
    for path, sub in paths:
        if path and _in_list(path, base) and isinstance(sub, dict):
            leaves = [(p, s) for p, s in _paths(sub) if p and (isinstance(s, str) or (isinstance(s, int) and not isinstance(s, bool)))]
            leaves = [x for x in leaves if isinstance(x[1], int)] + [x for x in leaves if isinstance(x[1], str)]
            for lp, leaf in leaves[:3]:
                body = copy.deepcopy(sub)
                # replace every occurrence of the leaf text by the formal parameter
                for p2, s2 in list(_paths(body)):
                    if p2 and s2 == leaf:
                        _set(body, p2, "p-arg1")
                pat = copy.deepcopy(base)
                _set(pat, path, {"@z1": None, "p-arg1": leaf})
                out.append(("param", [{"name": "@z1", "args": ["p-arg1"], "pattern": [body]}], pat))
                if isinstance(leaf, str):
                    # the usual YAML indentation: bindings BELOW the macro name ({"@z1": {"p-arg1": v}})
                    pat2 = copy.deepcopy(base)
                    _set(pat2, path, {"@z1": {"p-arg1": leaf}})
                    out.append(("param_binding_below_name", [{"name": "@z1", "args": ["p-arg1"], "pattern": [copy.deepcopy(body)]}], pat2))
    # (e1) formal parameter names that occur INSIDE other names of the body, and two formals one of which is a prefix of the other:
    # a formal parameter is replaced where it IS the leaf, never where it is part of a longer name
    for path, sub in paths:
        if path and _in_list(path, base) and isinstance(sub, dict):
            sl = [(p, s_) for p, s_ in _paths(sub) if p and isinstance(s_, str) and not s_.startswith(("$", "@"))]
            texts = [s_ for _, s_ in _paths(sub) if isinstance(s_, str)]
            for lp, leaf in sl[:2]:
                others = [s_ for _, s_ in sl if s_ != leaf and len(s_) >= 2]
                if not others:
                    continue
                formal = others[0][:-1] if len(others[0]) > 2 else others[0][:1]
                if formal in texts or not formal or formal == "times":
                    continue
                body = copy.deepcopy(sub)
                for p2, s2 in list(_paths(body)):
                    if p2 and s2 == leaf:
                        _set(body, p2, formal)
                pat = copy.deepcopy(base)
                _set(pat, path, {"@z1": None, formal: leaf})
                out.append(("param_formal_inside_other_name", [{"name": "@z1", "args": [formal], "pattern": [body]}], pat))
                break
            distinct = []
            for _, s_ in sl:
                if s_ not in distinct:
                    distinct.append(s_)
            if len(distinct) >= 2:
                l1, l2 = distinct[0], distinct[1]
                body = copy.deepcopy(sub)
                for p2, s2 in list(_paths(body)):
                    if p2 and s2 == l1:
                        _set(body, p2, "p-r")
                    elif p2 and s2 == l2:
                        _set(body, p2, "p-r2")
                pat = copy.deepcopy(base)
                _set(pat, path, {"@z1": None, "p-r": l1, "p-r2": l2})
                out.append(("param_prefix_formals", [{"name": "@z1", "args": ["p-r", "p-r2"], "pattern": [body]}], pat))
                pat = copy.deepcopy(base)
                _set(pat, path, {"@z1": None, "p-r2": l2, "p-r": l1})
                out.append(("param_prefix_formals_rev", [{"name": "@z1", "args": ["p-r2", "p-r"], "pattern": [copy.deepcopy(body)]}], pat))
    # (e2) a repetition bound supplied through a macro argument (times: <formal>, min/max: <formal>)
    for path, sub in paths:
        if path and _in_list(path, base) and isinstance(sub, dict):
            holders = [sub] if "times" in sub else [v for v in sub.values() if isinstance(v, dict) and "times" in v]
            for h in holders:
                t = h["times"]
                spots = [("times", t)] if isinstance(t, int) else [(k, t[k]) for k in ("min", "max") if k in t]
                for where, val in spots:
                    body = copy.deepcopy(sub)
                    hb = body if "times" in body else [v for v in body.values() if isinstance(v, dict) and "times" in v][0]
                    if where == "times":
                        hb["times"] = "p-cnt"
                    else:
                        hb["times"][where] = "p-cnt"
                    pat = copy.deepcopy(base)
                    _set(pat, path, {"@z1": None, "p-cnt": val})
                    out.append(("param_times", [{"name": "@z1", "args": ["p-cnt"], "pattern": [body]}], pat))
    rnd.shuffle(out)
    first, seen = [], set()

    def site_class(o):
        """kind of factoring x kind of site the macro use sits in (list element, mapping value, mapping key, inside $deref)"""
        uses = [(p_, s_) for p_, s_ in _paths(o[2]) if (isinstance(s_, str) and "@" in s_) or (isinstance(s_, dict) and any(isinstance(k, str) and k.startswith("@") for k in s_))]
        cls = set()
        for p_, s_ in uses:
            parent = _get(o[2], p_[:-1]) if p_ else None
            cls.add(("in_mapping_value" if isinstance(parent, dict) else "in_list") + ("_deref" if "$deref" in p_ else ""))
        return (o[0],) + tuple(sorted(cls))

    for o in out:
        if site_class(o) not in seen:
            seen.add(site_class(o))
            first.append(o)
    rest = [o for o in out if o not in first]
    # prefer parameterised factorings whose argument is a non-string (YAML int) value
    rest.sort(key=lambda o: 0 if (o[0] == "param" and any(isinstance(v, int) and k != "@z1" for k, v in _dict_items(o[2]))) else 1)
    # one candidate per (kind, site class) always; on top of that at least three further candidates, so that adding a kind
    # never removes candidates that used to be selected
    return (first + rest)[:max(limit, len(first) + 3)]


def two_macro_variants(base, rnd):
    """two different macros in one rule, a macro whose body refers to a later-listed macro, two uses of one macro"""
    out = []
    tops = [i for i, x in enumerate(base) if isinstance(x, (str, dict))]
    strs = [(p, s) for p, s in _paths(base) if p and isinstance(s, str)]
    if len(tops) >= 2:
        i, j = tops[0], tops[-1]
        pat = copy.deepcopy(base)
        pat[i], pat[j] = "@m1", "@m2"
        out.append(("two_items", [{"name": "@m1", "pattern": [copy.deepcopy(base[i])]}, {"name": "@m2", "pattern": [copy.deepcopy(base[j])]}], pat))
        out.append(("two_items_rev", [{"name": "@m2", "pattern": [copy.deepcopy(base[j])]}, {"name": "@m1", "pattern": [copy.deepcopy(base[i])]}], pat))
    # nested: outer macro body contains a reference to an inner macro listed after it
    for i in tops:
        x = base[i]
        if isinstance(x, dict):
            leaves = [(p, s) for p, s in _paths(x) if p and isinstance(s, str)]
            if leaves:
                lp, leaf = leaves[0]
                body = copy.deepcopy(x)
                _set(body, lp, "@inner")
                pat = copy.deepcopy(base)
                pat[i] = "@outer"
                out.append(("nested", [{"name": "@outer", "pattern": [body]}, {"name": "@inner", "pattern": leaf}], pat))
                # the same with names of different lengths (the listing order, not the name, decides what is applied first)
                for kind, on, inn in (("nested_short_outer", "@o", "@inner_long"), ("nested_long_outer", "@outer_long", "@i")):
                    b2 = copy.deepcopy(x)
                    _set(b2, lp, inn)
                    p2 = copy.deepcopy(base)
                    p2[i] = on
                    out.append((kind, [{"name": on, "pattern": [b2]}, {"name": inn, "pattern": leaf}], p2))
                if len(leaf) >= 3:
                    b3 = copy.deepcopy(x)
                    _set(b3, lp, leaf[0] + "@in_long" + leaf[-1])
                    p3 = copy.deepcopy(base)
                    p3[i] = "@o"
                    out.append(("nested_embedded_short_outer", [{"name": "@o", "pattern": [b3]}, {"name": "@in_long", "pattern": leaf[1:-1]}], p3))
                break
    # one parameterised macro used twice with DIFFERENT arguments (uses must not influence each other)
    dict_tops = [i for i in tops if isinstance(base[i], dict)]
    for i, j in itertools.combinations(dict_tops, 2):
        li = [(p, s) for p, s in _paths(base[i]) if p and isinstance(s, str)]
        lj = [(p, s) for p, s in _paths(base[j]) if p and isinstance(s, str)]
        done = False
        for (pi, si) in li:
            for (pj, sj) in lj:
                if si != sj:
                    bi, bj = copy.deepcopy(base[i]), copy.deepcopy(base[j])
                    for p2, s2 in list(_paths(bi)):
                        if p2 and s2 == si:
                            _set(bi, p2, "p-arg1")
                    for p2, s2 in list(_paths(bj)):
                        if p2 and s2 == sj:
                            _set(bj, p2, "p-arg1")
                    if bi == bj:
                        pat = copy.deepcopy(base)
                        pat[i] = {"@z1": None, "p-arg1": si}
                        pat[j] = {"@z1": None, "p-arg1": sj}
                        out.append(("param_two_uses", [{"name": "@z1", "args": ["p-arg1"], "pattern": [bi]}], pat))
                        done = True
                        break
            if done:
                break
    # the same string macro in key position at every place it occurs (different times bodies) and as a plain item
    keyed = [(p, sub) for p, sub in _paths(base) if isinstance(sub, dict) and len(sub) == 1 and isinstance(list(sub.values())[0], dict) and list(list(sub.values())[0]) == ["times"] and not list(sub)[0].startswith("$")]
    names = {}
    for p, sub in keyed:
        names.setdefault(list(sub)[0], []).append(p)
    for nm, ps in names.items():
        if len(ps) >= 2:
            pat = copy.deepcopy(base)
            for p in ps:
                _set(pat, p, {"@k1": copy.deepcopy(_get(base, p)[nm])})
            for i, x in enumerate(pat):
                if x == nm:
                    pat[i] = "@k1"
            out.append(("key_times_twice", [{"name": "@k1", "pattern": nm}], pat))
            break
    # the same string macro used at every place the string occurs (several uses)
    seen = {}
    for p, s in strs:
        seen.setdefault(s, []).append(p)
    for s, ps in seen.items():
        if len(ps) >= 2:
            pat = copy.deepcopy(base)
            for p in ps:
                _set(pat, p, "@v1")
            out.append(("multi_use", [{"name": "@v1", "pattern": s}], pat))
            break
    return out


def splits(macros):
    """every way to distribute the definitions between the rule file and up to two extra files (order preserved:
    extra-file macros are prepended to the rule file's)"""
    n = len(macros)
    out = []
    for cut1 in range(n + 1):
        for cut2 in range(cut1, n + 1):
            files = [macros[:cut1], macros[cut1:cut2]]
            infile = macros[cut2:]
            extra = [{"macros": f} for f in files if f]
            out.append((extra, infile))
    uniq = []
    for e, f in out:
        if (e, f) not in uniq:
            uniq.append((e, f))
    return uniq


def gamma13(tier, seed):
    rnd = random.Random(seed + 13)
    pairs = []
    per_base = 8 if tier == "quick" else 100
    for bname, base in BASES:
        cands = factorings(base, rnd, per_base) + two_macro_variants(base, rnd)
        for n, (kind, macros, pat) in enumerate(cands):
            sp = splits(macros)
            if tier == "quick" and len(macros) < 2:
                sp = [sp[0], sp[-1]] if len(sp) > 1 else sp
            for k, (extra, infile) in enumerate(sp):
                doc_a = {"pattern": pat}
                if infile:
                    doc_a = {"macros": copy.deepcopy(infile), "pattern": pat}
                pairs.append({"id": f"g13/{bname}/{kind}/{n}/split{k}", "feature": f"macro_{kind}", "doc_a": doc_a, "macros_a": copy.deepcopy(extra) or None, "doc_b": {"pattern": copy.deepcopy(base)}, "n_macros": len(macros)})
    return pairs
