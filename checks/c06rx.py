import sys
from vlib import lemmas
from vlib.common import Run, seed, tier
from checks import templates as T
def main():
    run = Run("C06", "translation_validation", "RX")
    tpls = T.gamma6(tier(), seed())
    lemmas.run_templates(run, tpls)
    return run.finish({"programs": len(tpls), "disagreements_checked": run.counts.get("disagreements_replayed", 0)})
if __name__ == "__main__":
    sys.exit(main())
