"""LX: the objdump line classifier as regular languages.

On every run this module
  * imports /repo's asm_manual_parser_w_regex and reads its regex constants,
  * walks the AST of LineParser.parse / parse_* to recover the cascade order, the constant each step matches
    and which capture group feeds addr / mnemonic / operands (anything it cannot interpret -> Unsupported),
  * translates each step's regex to a z3 RE (vlib/rx.py) with group k's characters coloured k,
  * states the lemmas over the objdump line grammar G (vlib/lx_grammar.py) with one free string = the line.
"""
import ast
import inspect
import re

import z3

from . import rx
from .rx import Unsupported, comp, inter

ALPHABET = (9,) + rx.PRINTABLE
_state = {}


def world():
    if "L" not in _state:
        _state["L"] = rx.World(ALPHABET, (0, 1, 2, 3))
    return _state["L"]


# ------------------------------------------------------------------ cascade recovery from the source
class Step:
    def __init__(self, method, const, regex_text, produces, groups, literal_mnemonic=None):
        self.method, self.const, self.regex_text = method, const, regex_text
        self.produces = produces  # 'instruction' | 'label' | 'empty_instruction' | 'other'
        self.groups = groups  # {'addr': 1, 'mnemonic': 2, 'operands': 3}
        self.literal_mnemonic = literal_mnemonic

    def __repr__(self):
        return f"Step({self.method}, {self.const}, {self.produces}, {self.groups})"


def load_module():
    import importlib

    name = "jasm.stringify_asm.implementations.gnu_objdump.asm_manual_parser_w_regex"
    return importlib.import_module(name)


def recover_cascade(mod=None):
    mod = mod or load_module()
    src = inspect.getsource(mod)
    tree = ast.parse(src)
    cls = next((n for n in tree.body if isinstance(n, ast.ClassDef) and n.name == "LineParser"), None)
    if cls is None:
        raise Unsupported("class LineParser not found")
    methods = {n.name: n for n in cls.body if isinstance(n, ast.FunctionDef)}
    if "parse" not in methods:
        raise Unsupported("LineParser.parse not found")
    # every statement of parse() must have a shape this encoding understands; anything else (a length guard, another
    # rewrite of self.line, a loop, ...) would silently fall outside the model -> refuse
    for stmt in methods["parse"].body:
        if isinstance(stmt, ast.Expr) and isinstance(stmt.value, ast.Constant):
            continue  # docstring
        if isinstance(stmt, ast.Expr) and isinstance(stmt.value, ast.Call) and "logger" in ast.unparse(stmt.value.func):
            continue
        if isinstance(stmt, ast.Return) and ast.unparse(stmt.value) == "self.line":
            continue
        if isinstance(stmt, ast.Assign) and isinstance(stmt.value, ast.Call) and ast.unparse(stmt.value.func).startswith("self.") and not stmt.value.args:
            continue  # x = self.parse_*()
        if isinstance(stmt, ast.If) and not stmt.orelse:
            test = ast.unparse(stmt.test)
            body_ok = len(stmt.body) == 1 and isinstance(stmt.body[0], ast.Return)
            def _is_self_call(e):
                return isinstance(e, ast.Call) and ast.unparse(e.func).startswith("self.") and not e.args

            if body_ok and (isinstance(stmt.test, ast.Name) or _is_self_call(stmt.test)):
                continue  # if x: return x   /   if self.is_*(): return self.line
            if body_ok and isinstance(stmt.test, ast.BoolOp) and isinstance(stmt.test.op, ast.Or) and all(_is_self_call(v) for v in stmt.test.values) and ast.unparse(stmt.body[0].value) == "self.line":
                continue  # if self.a() or self.b(): return self.line   (each call is a step of the cascade, in this order)
            if test == "'data16' in self.line" and len(stmt.body) == 1 and ast.unparse(stmt.body[0]) == "self.line = self.line.replace('data16 ', '')":
                continue
        raise Unsupported(f"LineParser.parse contains a statement outside the modelled shapes: {ast.unparse(stmt)[:120]!r}")
    # order of self.<method>() calls inside parse, in source order
    calls = []
    for node in ast.walk(methods["parse"]):
        if isinstance(node, ast.Call) and isinstance(node.func, ast.Attribute) and isinstance(node.func.value, ast.Name) and node.func.value.id == "self":
            calls.append((node.lineno, node.col_offset, node.func.attr))
    order = [c[2] for c in sorted(calls)]
    # data16 pre-processing statement
    data16 = None
    for node in ast.walk(methods["parse"]):
        if isinstance(node, ast.Call) and isinstance(node.func, ast.Attribute) and node.func.attr == "replace":
            args = [a.value for a in node.args if isinstance(a, ast.Constant)]
            data16 = tuple(args)
    steps = []
    for name in order:
        fn = methods.get(name)
        if fn is None:
            raise Unsupported(f"parse() calls unknown method {name}")
        step = _interpret_method(name, fn, mod)
        if step is not None:
            steps.append(step)
    return steps, data16, order


def _interpret_method(name, fn, mod):
    """-> Step for methods that classify with re.match(CONST, self.line); None for the string tests"""
    rematch = None
    for node in ast.walk(fn):
        if isinstance(node, ast.Call) and isinstance(node.func, ast.Attribute) and node.func.attr in ("match", "search", "fullmatch") and isinstance(node.func.value, ast.Name) and node.func.value.id == "re":
            rematch = node
            break
    if rematch is None:
        # a pure string test on self.line:  self.line == "..."  /  self.line in ("...", "...")
        lits = []
        for node in ast.walk(fn):
            if isinstance(node, ast.Compare) and ast.unparse(node.left) == "self.line" and len(node.ops) == 1:
                comp_ = node.comparators[0]
                if isinstance(node.ops[0], ast.Eq) and isinstance(comp_, ast.Constant) and isinstance(comp_.value, str):
                    lits.append(comp_.value)
                elif isinstance(node.ops[0], ast.In) and isinstance(comp_, (ast.Tuple, ast.List)) and all(isinstance(e, ast.Constant) and isinstance(e.value, str) for e in comp_.elts):
                    lits += [e.value for e in comp_.elts]
                else:
                    raise Unsupported(f"{name}: string test {ast.unparse(node)} is not modelled")
        if not lits:
            raise Unsupported(f"{name}: neither re.match nor a string comparison on self.line")
        st = Step(name, None, None, "other", {})
        st.literals = lits
        return st
    if rematch.func.attr != "match":
        raise Unsupported(f"{name}: re.{rematch.func.attr} (only re.match is modelled)")
    a0 = rematch.args[0]
    if isinstance(a0, ast.Name):
        const = a0.id
        regex_text = getattr(mod, const, None)
        if not isinstance(regex_text, str):
            raise Unsupported(f"{name}: constant {const} is not a string")
    elif isinstance(a0, ast.Constant) and isinstance(a0.value, str):
        const, regex_text = "<literal>", a0.value
    else:
        raise Unsupported(f"{name}: pattern argument is neither a module constant nor a literal")
    subject = ast.unparse(rematch.args[1]) if len(rematch.args) > 1 else "?"
    if subject != "self.line":
        # parse_section lower-cases the line first: it never produces an Instruction, model it as 'other'
        if subject == "self.line.lower()":
            st = Step(name, const, regex_text, "other", {})
            st.lowered = True  # the regex is applied to the lower-cased line
            return st
        raise Unsupported(f"{name}: matches {subject}, not self.line")
    # variables bound to match.group(k)
    var_group = {}
    for node in ast.walk(fn):
        if isinstance(node, ast.Assign) and isinstance(node.value, ast.Call) and isinstance(node.value.func, ast.Attribute) and node.value.func.attr == "group":
            k = node.value.args[0].value if node.value.args and isinstance(node.value.args[0], ast.Constant) else None
            for t in node.targets:
                if isinstance(t, ast.Name):
                    var_group[t.id] = k

    def group_of(expr, seen=()):
        if isinstance(expr, ast.Call) and isinstance(expr.func, ast.Attribute) and expr.func.attr == "group":
            return expr.args[0].value
        # <group>.split(SEP)[0] : the part of the group before the first SEP
        if (
            isinstance(expr, ast.Subscript)
            and isinstance(expr.slice, ast.Constant)
            and expr.slice.value == 0
            and isinstance(expr.value, ast.Call)
            and isinstance(expr.value.func, ast.Attribute)
            and expr.value.func.attr == "split"
            and len(expr.value.args) == 1
            and isinstance(expr.value.args[0], ast.Constant)
            and isinstance(expr.value.args[0].value, str)
            and len(expr.value.args[0].value) == 1
        ):
            g = group_of(expr.value.func.value, seen)
            if isinstance(g, int):
                return ("split0", g, expr.value.args[0].value)
            return None
        if isinstance(expr, ast.Name):
            if expr.id in var_group:
                return var_group[expr.id]
            if expr.id in seen:
                return None
            # follow simple data flow: x = f(..., y=<var>) / x = g(<var>)
            for node in ast.walk(fn):
                if isinstance(node, ast.Assign) and any(isinstance(t, ast.Name) and t.id == expr.id for t in node.targets):
                    for sub in ast.walk(node.value):
                        if isinstance(sub, ast.Name) and sub.id != expr.id:
                            g = group_of(sub, seen + (expr.id,))
                            if g is not None:
                                return g
        return None

    for node in ast.walk(fn):
        if isinstance(node, ast.Assign) and isinstance(node.value, ast.Subscript):
            g = group_of(node.value)
            if g is not None:
                for t in node.targets:
                    if isinstance(t, ast.Name):
                        var_group[t.id] = g
    # soundness of the wiring: a traced variable must be assigned exactly once (a second, typically conditional,
    # assignment would make "field = f(group k)" depend on data, which this encoding cannot express)
    counts = {}
    for node in ast.walk(fn):
        if isinstance(node, (ast.Assign, ast.AugAssign)):
            targets = node.targets if isinstance(node, ast.Assign) else [node.target]
            for t in targets:
                if isinstance(t, ast.Name):
                    counts[t.id] = counts.get(t.id, 0) + 1
    fragile = {v for v in var_group if counts.get(v, 0) > 1}
    produces, groups, literal = "other", {}, None
    ctor = [n for n in ast.walk(fn) if isinstance(n, ast.Call) and isinstance(n.func, ast.Name) and n.func.id in ("Instruction", "Label")]
    if ctor:
        main = max(ctor, key=lambda n: (n.lineno, n.col_offset))  # the unconditional result (last in source order)
        if main.func.id == "Label":
            produces = "label"
        else:
            produces = "instruction"
            for kw in main.keywords:
                if kw.arg == "mnemonic" and isinstance(kw.value, ast.Constant):
                    literal = kw.value.value
                elif kw.arg == "operands" and isinstance(kw.value, ast.List):
                    continue
                else:
                    g = group_of(kw.value)
                    if g is None:
                        raise Unsupported(f"{name}: cannot trace Instruction({kw.arg}=...) to a capture group")
                    if isinstance(kw.value, ast.Name) and kw.value.id in fragile:
                        raise Unsupported(f"{name}: variable '{kw.value.id}' feeding Instruction({kw.arg}=...) is assigned more than once or conditionally; the wiring cannot be encoded exactly")
                    groups[kw.arg] = g
            if literal == "empty":
                produces = "empty_instruction"
    return Step(name, const, regex_text, produces, groups, literal)


# ------------------------------------------------------------------ regex constants -> languages
def prep(text):
    """re.match semantics: anchored at 0; a trailing '$' anchors the end, otherwise anything may follow"""
    t = text[1:] if text.startswith("^") else text
    end = False
    if t.endswith("$") and not t.endswith("\\$"):
        t, end = t[:-1], True
    return t, end


def greedy_tail(astn):
    """Maximal-munch rule: a trailing  (C+) .*  — the continuation `.*` is universal on newline-free lines, so the
    greedy C+ can never be backtracked into: it is read as C+(?!C).  Returns (new_ast, applied)."""
    if astn[0] != "cat" or len(astn[1]) < 2:
        return astn, False
    items = list(astn[1])
    last, prev = items[-1], items[-2]
    is_dotstar = last[0] == "rep" and last[2] == 0 and last[3] is None and last[1][0] == "cls" and last[1][1] is True and last[1][2] == ((10, 10),)
    inner = prev[2] if prev[0] == "cap" else prev
    while inner[0] in ("cat", "grp") and (inner[0] == "grp" or len(inner[1]) == 1):
        inner = inner[1] if inner[0] == "grp" else inner[1][0]
    if is_dotstar and inner[0] == "rep" and inner[3] is None and inner[1][0] == "cls":
        items.insert(-1, ("nla", inner[1]))
        return ("cat", items), True
    return astn, False


class LineLang:
    def __init__(self, w=None):
        self.w = w or world()
        self.tr = rx.Tr(self.w, star_cap=None)
        self.notes = []

    def regex_lang(self, text, grpcols=None, cols=(0,)):
        """language of lines on which re.match(text, line) succeeds; group k's characters carry colours grpcols[k]"""
        t, end = prep(text)
        astn, ng = rx.parse(t)
        astn, applied = greedy_tail(astn)
        if applied:
            self.notes.append("maximal-munch rule applied to the trailing greedy group (continuation .*$ is universal)")
        K = rx.EPS if end else self.w.ANY
        allc = self.w.colours
        return self.tr.lang(astn, K, cols, allc, grpcols), ng

    def blind(self, text):
        return self.regex_lang(text, None, self.w.colours)[0]

    def coloured(self, text, groups, transforms=None):
        """groups: {group_number: colour}; transforms: {group_number: ('split0', sep)} -> only the part of the
        group before the first sep carries the colour (the rest of the group is presentation, colour 0)"""
        t, end = prep(text)
        astn, ng = rx.parse(t)
        if transforms:
            astn = _apply_split0(astn, transforms)
        astn, applied = greedy_tail(astn)
        if applied:
            self.notes.append("maximal-munch rule applied to the trailing greedy group (continuation .*$ is universal)")
        K = rx.EPS if end else self.w.ANY
        return self.tr.lang(astn, K, (0,), self.w.colours, {g: (c,) for g, c in groups.items()})

    def step_lang(self, step):
        """language of lines the step accepts (all colours), for every kind of step the cascade can contain"""
        allc = self.w.colours
        lits = getattr(step, "literals", None)
        if lits is not None:
            outs = []
            for t in lits:
                t = t.rstrip("\n")  # lines never contain a newline (the listing is split on it)
                if all(ord(ch) in self.w.alphabet for ch in t):
                    outs.append(self.w.lit(t, allc))
            return rx.union(outs) if outs else rx.EMPTY
        if getattr(step, "lowered", False):
            t, end = prep(step.regex_text)
            astn, _ = rx.parse(t)
            astn = _case_fold(astn)
            K = rx.EPS if end else self.w.ANY
            return self.tr.lang(astn, K, allc, allc, None)
        return self.blind(step.regex_text)

    def seg(self, segs, blind=False):
        """segs: list of (colour, regex text) -> concatenated language"""
        parts = []
        for c, t in segs:
            astn, _ = rx.parse(t)
            parts.append(self.tr.plain(astn, self.w.colours if blind else (c,)))
        return rx.concat(parts)


def _apply_split0(n, transforms):
    k = n[0]
    if k == "cap" and n[1] in transforms:
        _, sep = transforms[n[1]]
        inner = n[2]
        while inner[0] in ("cat", "grp") and (inner[0] == "grp" or len(inner[1]) == 1):
            inner = inner[1] if inner[0] == "grp" else inner[1][0]
        if not (inner[0] == "rep" and inner[1][0] == "cls" and inner[2] >= 1 and inner[3] is None):
            raise Unsupported("split()[0] on a group that is not a simple C+ class repetition")
        neg, items = inner[1][1], inner[1][2]
        codes = [c for c in ALPHABET if any(a <= c <= b for a, b in items) != neg]
        head_cls = ("set", tuple(c for c in codes if c != ord(sep)))
        # C+ = (C minus sep)* [ sep C* ]  with at least one character overall; split(sep)[0] is the first part
        head = ("cap", n[1], ("rep", head_cls, 0, None))
        tail = ("rep", ("cat", [("lit", sep), ("rep", inner[1], 0, None)]), 0, 1)
        nonempty = ("pla", inner[1])
        return ("cat", [nonempty, head, tail])
    if k in ("cat", "alt"):
        return (k, [_apply_split0(x, transforms) for x in n[1]])
    if k in ("grp", "nla", "pla"):
        return (k, _apply_split0(n[1], transforms))
    if k == "cap":
        return ("cap", n[1], _apply_split0(n[2], transforms))
    if k == "rep":
        return ("rep", _apply_split0(n[1], transforms), n[2], n[3])
    return n


def _case_fold(n):
    """regex applied to line.lower(): a lower-case literal letter stands for both cases of the original line"""
    k = n[0]
    if k == "lit":
        c = n[1]
        if c.isalpha() and c.islower():
            return ("set", (ord(c), ord(c.upper())))
        if c.isalpha() and c.isupper():
            return ("set", ())  # an upper-case literal can never match a lower-cased line
        return n
    if k == "cls":
        return n
    if k in ("cat", "alt"):
        return (k, [_case_fold(x) for x in n[1]])
    if k in ("grp", "nla", "pla", "atomic"):
        return (k, _case_fold(n[1]))
    if k == "cap":
        return ("cap", n[1], _case_fold(n[2]))
    if k in ("rep", "prep"):
        return (k, _case_fold(n[1]), n[2], n[3])
    return n


def show(w, s):
    plain, cols = w.decode(s)
    return plain, "".join(str(c) for c in cols)
