"""Shared plumbing: repo location, evidence files, known findings, replay files, exit codes."""
import hashlib
import json
import os
import sys
import time

VERIF = os.path.dirname(os.path.dirname(os.path.abspath(__file__)))
REPO = os.environ.get("JASM_REPO", "/repo")
SRC = os.path.join(REPO, "src")
GUARD = "JASM_VERIF"

EXIT_OK, EXIT_VIOLATION, EXIT_HARNESS = 0, 1, 2


def use_repo():
    """Put the repository's *current working tree* first on sys.path (nothing is cached/installed)."""
    os.environ.setdefault(GUARD, "1")
    if SRC not in sys.path:
        sys.path.insert(0, SRC)
    import logging

    logging.disable(logging.CRITICAL)  # JASM logs every match at INFO; irrelevant here
    return SRC


def tier():
    t = os.environ.get("VERIF_TIER", "quick")
    return t if t in ("quick", "thorough") else "quick"


def seed():
    try:
        return int(os.environ.get("VERIF_SEED", "0"))
    except ValueError:
        return 0


def file_hashes(relpaths):
    out = {}
    for r in relpaths:
        p = os.path.join(REPO, r)
        try:
            out[r] = hashlib.sha256(open(p, "rb").read()).hexdigest()[:16]
        except OSError:
            out[r] = "missing"
    return out


# ---------------------------------------------------------------- known findings
class Findings:
    """KNOWN_FINDINGS.txt: 'finding: property=<id> key=<selector> <text>' / 'fixed: property=<id> <commit> <text>'.
    Only 'finding:' lines suppress, and only the exact (property, key)."""

    def __init__(self, path=None):
        self.path = path or os.path.join(VERIF, "KNOWN_FINDINGS.txt")
        self.entries = {}
        if os.path.exists(self.path):
            for line in open(self.path):
                line = line.strip()
                if not line.startswith("finding:"):
                    continue
                parts = line[len("finding:"):].split()
                kv = dict(p.split("=", 1) for p in parts[:2] if "=" in p)
                if "property" in kv and "key" in kv:
                    self.entries[(kv["property"], kv["key"])] = " ".join(parts[2:])

    def lookup(self, prop, key):
        return self.entries.get((prop, key))


# ---------------------------------------------------------------- result collector
class Run:
    """Collects obligations of one check run, prints VIOLATION / KNOWN-FINDING lines, writes evidence."""

    def __init__(self, prop, level, engine):
        self.prop, self.level, self.engine = prop, level, engine
        self.t0 = time.time()
        self.findings = Findings()
        self.violations = []  # (key, text, replay_path)
        self.known = {}  # key -> text (first witness)
        self.harness_errors = []
        self.inconclusive = []
        self.samples = []
        self.counts = {}
        self.assumptions = []
        self.coverage_extra = {}
        self.solver_s = 0.0
        self._replay_n = 0

    def count(self, k, n=1):
        self.counts[k] = self.counts.get(k, 0) + n

    def sample(self, s, cap=12):
        if len(self.samples) < cap:
            self.samples.append(s)

    def replay_path(self, payload):
        d = os.path.join(VERIF, "replays", self.prop)
        os.makedirs(d, exist_ok=True)
        self._replay_n += 1
        h = hashlib.sha256(json.dumps(payload, sort_keys=True, default=str).encode()).hexdigest()[:10]
        p = os.path.join(d, f"{h}.json")
        with open(p, "w") as f:
            json.dump(payload, f, indent=1, default=str)
        return p

    def failure(self, key, text, payload):
        """A reproduced disagreement between the real code and the property. key selects a known finding."""
        known = self.findings.lookup(self.prop, key)
        if known is not None:
            if key not in self.known:
                self.known[key] = text
            self.count("known_finding_witnesses")
            return False
        payload = dict(payload, property=self.prop, key=key, text=text)
        p = self.replay_path(payload)
        self.violations.append((key, text, p))
        return True

    def harness_error(self, text):
        self.harness_errors.append(text)

    def inconc(self, text):
        self.inconclusive.append(text)

    def finish(self, coverage, assumptions=None):
        wall = time.time() - self.t0
        for key, text in sorted(self.known.items()):
            print(f"KNOWN-FINDING: property={self.prop} key={key} {text}")
        seen = set()
        for key, text, p in self.violations:
            if key in seen:
                continue
            seen.add(key)
            print(f"VIOLATION property={self.prop} replay={p}")
            print(f"  key={key} {text}")
        for h in self.harness_errors[:20]:
            print(f"HARNESS-ERROR property={self.prop} {h}")
        for h in self.inconclusive[:20]:
            print(f"INCONCLUSIVE property={self.prop} {h}")
        cov = dict(coverage)
        cov.setdefault("samples", self.samples or ["(none)"])
        cov["counts"] = self.counts
        cov["solver_wall_s"] = round(self.solver_s, 2)
        cov["known_findings_reproduced"] = sorted(self.known)
        cov["inconclusive"] = self.inconclusive[:50]
        cov["harness_errors"] = self.harness_errors[:50]
        cov.update(self.coverage_extra)
        ev = {
            "property_id": self.prop,
            "tier": tier(),
            "seed": seed(),
            "level": self.level,
            "coverage": cov,
            "assumptions": (assumptions or []) + self.assumptions,
            "wall_s": round(wall, 2),
            "violations": len(seen),
            "engine": self.engine,
            "repo": REPO,
        }
        # evidence/ describes /repo itself; a run against another checkout (JASM_REPO, used for seeded changes) keeps its
        # evidence apart (git-ignored) so that it can never be committed by mistake
        evdir = os.path.join(VERIF, "evidence") if os.path.realpath(REPO) == "/repo" else os.path.join(VERIF, "replays", "_evidence_other_checkout")
        os.makedirs(evdir, exist_ok=True)
        with open(os.path.join(evdir, f"{self.prop}.json"), "w") as f:
            json.dump(ev, f, indent=1, default=str)
        status = "VIOLATED" if self.violations else ("HARNESS-ERROR" if self.harness_errors else "held")
        print(f"[{self.prop}] {status}: {json.dumps(self.counts)} wall={wall:.1f}s solver={self.solver_s:.1f}s")
        if self.violations:
            return EXIT_VIOLATION
        if self.harness_errors:
            return EXIT_HARNESS
        return EXIT_OK
