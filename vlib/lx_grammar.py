"""Objdump line grammar G: the input domain 'what `objdump -d -M att` can print' (binutils 2.40 printer),
written as coloured regex segments.  It is an ASSUMPTION of C08/C10/C16 and is validated, not trusted:
`validate()` disassembles seeded random bytes with the sandbox's objdump in three modes plus the repo's
binaries and reports every printed line that is outside G (a grammar gap, not a property violation).

Intended colouring: 1 = address, 2 = first token of the instruction text (the mnemonic, or a prefix such
as `rep`/`lock`/`cs` when objdump prints one), 3 = second token (the operand list; for prefixed
instructions the real mnemonic), 0 = everything else (presentation).
"""
import os
import re
import subprocess
import tempfile

HEXD = "[0-9a-f]"
REG = r"%(?:[a-z][a-z0-9]{0,5}|\?)"  # %rax %r12d %xmm15 %k1, %? for an invalid register number
STREG = r"%st(?:\([0-7]\))?"  # x87 stack register, only ever a whole operand
NUM = rf"-?0x{HEXD}{{1,16}}"
SEG = r"(?:%[c-gs]s:)?"
DECOR = r"(?:\{%k[0-7]\})?(?:\{z\})?(?:\{1to(?:2|4|8|16|32)\})?"
MEMIN = rf"\((?:{REG})?(?:,{REG},[1248])?\)"  # (%rax) (%rax,%rbx,4) (,%rax,8)
MEM16 = rf"\({REG},{REG}\)"  # 16-bit pair form (%bx,%si)
MEM = rf"{SEG}(?:{NUM})?(?:{MEMIN}|{MEM16}){DECOR}"
ABS = rf"{SEG}{NUM}"  # %fs:0x28, absolute 0x601040
IMM = rf"\${NUM}"
TARGET = rf"(?:0x)?{HEXD}{{1,16}}"
ROUND = r"\{(?:r[nudz]-)?sae\}"
BADOP = rf"{SEG}\(bad\)"  # invalid ModRM for the instruction
OPND = rf"(?:\*?{REG}{DECOR}|{STREG}|{IMM}|\*?{MEM}|\*?{ABS}|{TARGET}|{ROUND}|{BADOP}|\{{%k[0-7]\}})"
OPS = rf"{OPND}(?:,{OPND}){{0,4}}"

WORD = r"(?:[a-z][a-z0-9]{0,14}(?:\.[a-zA-Z0-9]{1,4})?|\(bad\)|\.byte|\{[a-z0-9]{1,5}\})"
ODD1, ODD2 = r"(?:fndisi\(8087|fneni\(8087|fnsetpm\(287)", r"only\)"  # x87 'fndisi(8087 only)' is printed with a blank
HINT = r"(?:,p[tn])?"
SP = r" {1,8}"
SYM = r"<[!-~]+>"
COMMENT = r"# [!-~ ]*"
TAIL = rf"(?: {{1,8}}(?:{SYM}|{COMMENT}|[!-~]+)){{0,4}} {{0,2}}"

INDENT = r" {0,16}"
ADDR = rf"{HEXD}{{1,16}}"
BYTES = rf"(?:{HEXD}{{2}} ){{1,15}} {{0,40}}"

HEAD = [(0, INDENT), (1, ADDR), (0, ":\t"), (0, BYTES), (0, "\t")]
HEAD_NOBYTES = [(0, INDENT), (1, ADDR), (0, ":\t")]

# instruction line with a second token (operands, or the real mnemonic after a prefix)
JCC = r"(?:j[a-z]{1,4}|loop[a-z]{0,3})"  # only conditional branches carry a ,pt / ,pn hint suffix
# the branch hint is printed glued to the mnemonic but is not part of it (colour 0)
G_OPS = HEAD + [(2, f"(?:{WORD}|{ODD1})"), (0, SP), (3, f"(?:{OPS}|{WORD}|{JCC}{HINT}|{ODD1}|{ODD2})"), (0, TAIL)]
G_OPS_HINT = HEAD + [(2, JCC), (0, ",p[tn]"), (0, SP), (3, f"(?:{OPS})"), (0, TAIL)]
# instruction line consisting of one token
G_NOOPS = HEAD + [(2, WORD), (0, " {0,8}")]
# C16 is about presentation EDITS: a '# comment' may be added to an operand-less instruction as well
G_NOOPS_COMMENT = HEAD + [(2, WORD), (0, rf" {{1,8}}{COMMENT}")]
G_OPS_NOBYTES = HEAD_NOBYTES + G_OPS[len(HEAD):]
G_OPS_HINT_NOBYTES = HEAD_NOBYTES + G_OPS_HINT[len(HEAD):]
G_NOOPS_NOBYTES = HEAD_NOBYTES + G_NOOPS[len(HEAD):]

# non-instruction lines
G_CONT = [(0, INDENT), (0, ADDR), (0, ":\t"), (0, rf"(?:{HEXD}{{2}} ){{1,15}} {{0,40}}")]
G_BLANK = [(0, "")]
G_DOTS = [(0, "\t\\.\\.\\.")]
G_HEADER = [(0, r"[!-~]{1,60}: {1,8}file format [!-~]{1,30}")]
G_SECTION = [(0, r"Disassembly of section [!-~]{1,30}:")]
G_LABEL = [(0, rf"{HEXD}{{1,16}} <[ -~]{{0,60}}>:")]

NONINSTR = {"blank": G_BLANK, "dots": G_DOTS, "header": G_HEADER, "section": G_SECTION, "label": G_LABEL, "continuation": G_CONT}


# finer partition of the instruction-line classes by the shape of the first token (used for the differential
# sample validation, which is independent of the encoding of the cascade)
FIRST_TOKEN_ALTS = {
    "word": r"[a-z][a-z0-9]{0,14}",
    "dotted": r"[a-z][a-z0-9]{0,6}\.[a-zA-Z0-9]{1,4}",
    "bad": r"\(bad\)",
    "byte": r"\.byte",
    "braces": r"\{[a-z0-9]{1,5}\}",
    "odd_x87": ODD1,
}
HINT_ALTS = {"jcc": r"j[a-z]{1,4}", "loop": r"loop[a-z]{0,3}"}


def sample_classes():
    out = {}
    for k, t in FIRST_TOKEN_ALTS.items():
        second = ODD2 if k == "odd_x87" else f"(?:{OPS}|{WORD})"
        out[f"ops/{k}"] = HEAD + [(2, t), (0, SP), (3, second), (0, TAIL)]
        if k != "odd_x87":
            out[f"noops/{k}"] = HEAD + [(2, t), (0, " {0,8}")]
    for k, t in HINT_ALTS.items():
        out[f"hint/{k}"] = HEAD + [(2, t), (0, ",p[tn]"), (0, SP), (3, OPS), (0, TAIL)]
    out["noops/with_comment"] = G_NOOPS_COMMENT
    # a direct branch whose target is written with hex LETTERS only (call bbd <sym>), with its symbol annotation
    out["ops/branch_target_letters"] = HEAD + [(2, "(?:call|jmp|je|jne)"), (0, " {1,4}"), (3, "[a-f]{2,6}"), (0, " <[a-zA-Z_][a-zA-Z0-9_]{0,12}(?:\\+0x[0-9a-f]{1,4})?>")]
    # a very long symbol annotation / comment (objdump -C prints demangled C++ names of several hundred characters)
    out["ops/long_annotation"] = HEAD + [(2, "(?:call|mov|lea)"), (0, " {1,4}"), (3, OPS), (0, " <[a-zA-Z_:<>,*&()]{600,700}>")]
    out["ops/long_comment"] = HEAD + [(2, "(?:mov|lea)"), (0, " {1,4}"), (3, OPS), (0, " {1,8}# [0-9a-f]{4,6} <[a-zA-Z_:]{600,650}>")]
    # C16: a comment is free text; it may happen to contain the words other line kinds are recognised by
    out["ops/comment_like_header"] = HEAD + [(2, "(?:mov|lea|call)"), (0, " {1,4}"), (3, OPS), (0, " {1,8}# (?:see the file format table|Disassembly of section \\.text:|0000 <f>:)")]
    out["ops/reg_then_imm"] = HEAD + [(2, "(?:out|outl|enter|bound)"), (0, " {1,4}"), (3, f"{REG},{IMM}"), (0, "")]
    out["ops/prefixed_hint"] = HEAD + [(2, "(?:bnd|cs|ds|repz|rex\\.W)"), (0, " "), (3, f"{JCC},p[tn]"), (0, TAIL)]
    return out


def plain(segs):
    return "".join(t for _, t in segs)


def classify_regexes():
    return {
        "ops": re.compile(plain(G_OPS) + "$"),
        "ops_hint": re.compile(plain(G_OPS_HINT) + "$"),
        "noops": re.compile(plain(G_NOOPS) + "$"),
        **{k: re.compile(plain(v) + "$") for k, v in NONINSTR.items()},
    }


def in_grammar(line, cre=None):
    cre = cre or classify_regexes()
    return [k for k, r in cre.items() if r.match(line)]


# ------------------------------------------------------------------ corpus for validating G
def objdump_random(seed, nbytes, mode):
    import random

    rnd = random.Random(seed)
    data = bytes(rnd.getrandbits(8) for _ in range(nbytes))
    with tempfile.TemporaryDirectory(prefix="jasmverif_") as d:
        p = os.path.join(d, "r.bin")
        open(p, "wb").write(data)
        out = subprocess.run(["objdump", "-D", "-b", "binary", "-m", mode, "-M", "att", p], capture_output=True, text=True, check=True).stdout
    return out.split("\n")


def objdump_file(path, extra=()):
    out = subprocess.run(["objdump", "-d", "-M", "att", *extra, path], capture_output=True, text=True, check=True).stdout
    return out.split("\n")


def validate(lines, cre=None):
    """-> (n_lines, gaps list, per-production witness counts)"""
    cre = cre or classify_regexes()
    gaps, seen = [], {}
    n = 0
    for l in lines:
        n += 1
        ks = in_grammar(l, cre)
        if not ks:
            gaps.append(l)
        for k in ks:
            seen[k] = seen.get(k, 0) + 1
    return n, gaps, seen
