"""RX: parser for the regex subset JASM emits + exact translation to z3 regular-expression terms.

The translation is *regenerated on every run* from the regex text the real compiler
(`Yaml2Regex.produce_regex`) or the real parser module (its regex constants) produces.

Colours: a character c with colour k is the code point c + 0x100*k.  One free string
variable can then carry "this part was consumed by the match / by group k" information,
which is how match extents and capture-group contents are decided by a *language* query.

Look-ahead is translated exactly by continuation passing:
    lang((?!X), K) = K  minus  lang(X, ANY)
    lang(A B, K)   = lang(A, lang(B, K))
Anything outside the supported subset raises Unsupported (the obligation is then
reported inconclusive with the reason; it is never approximated silently).
"""
import re as _re

import z3

SH = 0x100
PRINTABLE = tuple(range(0x20, 0x7F))
STAR_CAP = 1000  # loops {m,n} with n >= STAR_CAP are read as {m,} (bound: records < 500 chars)
MAX_UNROLL = 12


class Unsupported(Exception):
    pass


# ------------------------------------------------------------------ parser
class _P:
    def __init__(self, t):
        self.t, self.i, self.ngroups = t, 0, 0

    def peek(self):
        return self.t[self.i] if self.i < len(self.t) else None

    def eat(self, c=None):
        if self.i >= len(self.t):
            raise Unsupported("unexpected end of regex")
        ch = self.t[self.i]
        if c is not None and ch != c:
            raise Unsupported(f"expected {c!r} at {self.i} in {self.t!r}")
        self.i += 1
        return ch

    def parse(self):
        r = self.alt()
        if self.i != len(self.t):
            raise Unsupported(f"unbalanced ')' at {self.i} in {self.t!r}")
        return r

    def alt(self):
        alts = [self.seq()]
        while self.peek() == "|":
            self.eat()
            alts.append(self.seq())
        return alts[0] if len(alts) == 1 else ("alt", alts)

    def seq(self):
        items = []
        while self.peek() is not None and self.peek() not in "|)":
            items.append(self.quant())
        return ("cat", items)

    def _try_brace(self):
        m = _re.compile(r"\{(\d+)(?:(,)(\d*))?\}").match(self.t, self.i)
        if not m:
            return None
        lo = int(m.group(1))
        hi = lo if not m.group(2) else (int(m.group(3)) if m.group(3) else None)
        return lo, hi, m.end()

    def quant(self):
        a = self.atom()
        while True:
            c = self.peek()
            if c == "*":
                self.eat()
                a = ("rep", a, 0, None)
            elif c == "+":
                self.eat()
                a = ("rep", a, 1, None)
            elif c == "?":
                self.eat()
                a = ("rep", a, 0, 1)
            elif c == "{":
                b = self._try_brace()
                if b is None:
                    break  # literal '{' (the regex module reads a malformed quantifier as text)
                lo, hi, end = b
                if hi is not None and hi < lo:
                    raise Unsupported("quantifier with min > max (regex.error in the engine)")
                self.i = end
                a = ("rep", a, lo, hi)
            else:
                break
            if self.peek() == "?" and c in "*+?{":
                # lazy quantifier: same set of possible matches as the greedy one (only the engine's preference differs)
                self.eat()
            elif self.peek() == "+" and c in "*+?{":
                # possessive quantifier: no backtracking into the repetition
                self.eat()
                a = ("prep", a[1], a[2], a[3])
        return a

    def atom(self):
        c = self.eat()
        if c == "(":
            if self.t.startswith("?:", self.i):
                self.i += 2
                r = self.alt()
                self.eat(")")
                return ("grp", r)
            if self.t.startswith("?!", self.i):
                self.i += 2
                r = self.alt()
                self.eat(")")
                return ("nla", r)
            if self.t.startswith("?=", self.i):
                self.i += 2
                r = self.alt()
                self.eat(")")
                return ("pla", r)
            if self.t.startswith("?>", self.i):
                self.i += 2
                r = self.alt()
                self.eat(")")
                return ("atomic", r)
            if self.t.startswith("?<=", self.i) or self.t.startswith("?<!", self.i):
                kind = "plb" if self.t[self.i + 2] == "=" else "nlb"
                self.i += 3
                r = self.alt()
                self.eat(")")
                return (kind, r)
            if self.peek() == "?":
                raise Unsupported("group extension (?%s" % self.t[self.i + 1 : self.i + 3])
            self.ngroups += 1
            n = self.ngroups
            r = self.alt()
            self.eat(")")
            return ("cap", n, r)
        if c == "[":
            neg = False
            if self.peek() == "^":
                neg = True
                self.eat()
            items = []
            first = True
            while self.peek() != "]" or first:
                first = False
                ch = self.eat()
                if ch == "[" and self.peek() == ":":
                    raise Unsupported("POSIX class")
                if ch == "\\":
                    e = self.eat()
                    lo = hi = None
                    if e == "d":
                        items.append((0x30, 0x39))
                        continue
                    if e == "w":
                        items += [(0x30, 0x39), (0x41, 0x5A), (0x61, 0x7A), (0x5F, 0x5F)]
                        continue
                    if e == "s":
                        items += [(9, 13), (0x20, 0x20)]
                        continue
                    if e == "t":
                        lo = hi = 9
                    elif e == "n":
                        lo = hi = 10
                    elif e.isalnum():
                        raise Unsupported(f"class escape \\{e}")
                    else:
                        lo = hi = ord(e)
                    ch_code = lo
                else:
                    ch_code = ord(ch)
                if self.peek() == "-" and self.i + 1 < len(self.t) and self.t[self.i + 1] != "]":
                    self.eat()
                    h = self.eat()
                    if h == "\\":
                        h = self.eat()
                        if h.isalnum():
                            raise Unsupported("class range escape")
                    items.append((ch_code, ord(h)))
                else:
                    items.append((ch_code, ch_code))
            self.eat("]")
            return ("cls", neg, tuple(items))
        if c == "\\":
            e = self.eat()
            if e.isdigit():
                if e == "0":
                    raise Unsupported("\\0")
                return ("bref", int(e))
            if e == "d":
                return ("cls", False, ((0x30, 0x39),))
            if e == "D":
                return ("cls", True, ((0x30, 0x39),))
            if e == "w":
                return ("cls", False, ((0x30, 0x39), (0x41, 0x5A), (0x61, 0x7A), (0x5F, 0x5F)))
            if e == "W":
                return ("cls", True, ((0x30, 0x39), (0x41, 0x5A), (0x61, 0x7A), (0x5F, 0x5F)))
            if e == "s":
                return ("cls", False, ((9, 13), (0x20, 0x20)))
            if e == "S":
                return ("cls", True, ((9, 13), (0x20, 0x20)))
            if e == "t":
                return ("lit", "\t")
            if e == "n":
                return ("lit", "\n")
            if e.isalnum():
                raise Unsupported(f"escape \\{e}")
            return ("lit", e)
        if c == ".":
            return ("cls", True, ((10, 10),))
        if c in "^$":
            raise Unsupported(f"anchor {c}")
        if c in "*+?":
            raise Unsupported("nothing to repeat")
        return ("lit", c)


def parse(text):
    p = _P(text)
    return p.parse(), p.ngroups


def has_la(n):
    k = n[0]
    if k in ("lit", "cls", "bref", "str", "set"):
        return False
    if k in ("nla", "pla", "prep", "plb", "nlb", "atomic"):
        return True
    if k in ("cat", "alt"):
        return any(has_la(x) for x in n[1])
    if k == "grp":
        return has_la(n[1])
    if k == "cap":
        return has_la(n[2])
    if k == "capval":
        return has_la(n[2])
    if k == "rep":
        return has_la(n[1])
    raise Unsupported(k)


def has_bref(n):
    k = n[0]
    if k == "bref":
        return True
    if k in ("lit", "cls", "str", "set"):
        return False
    if k in ("cat", "alt"):
        return any(has_bref(x) for x in n[1])
    if k in ("grp", "nla", "pla", "rep", "prep", "plb", "nlb", "atomic"):
        return has_bref(n[1])
    if k in ("cap", "capval"):
        return has_bref(n[2])
    raise Unsupported(k)


def expand_brefs(n, g):
    """R[g]: capture i becomes 'X restricted to the literal g[i-1]', \\i becomes the literal g[i-1]."""
    k = n[0]
    if k == "cap":
        if n[1] - 1 >= len(g):
            return ("grp", expand_brefs(n[2], g))  # a group the template did not expect: left unconstrained
        if g[n[1] - 1] is None:
            return ("cap", n[1], expand_brefs(n[2], g))  # a capture LOCAL to a negative look-ahead: expanded there
        return ("capval", n[1], expand_brefs(n[2], g), g[n[1] - 1])
    if k == "bref":
        if n[1] - 1 >= len(g):
            raise Unsupported("back-reference to undefined group")
        if g[n[1] - 1] is None:
            return n
        return ("str", g[n[1] - 1])
    if k in ("lit", "cls", "str", "set"):
        return n
    if k in ("cat", "alt"):
        return (k, [expand_brefs(x, g) for x in n[1]])
    if k in ("grp", "nla", "pla", "plb", "nlb", "atomic"):
        return (k, expand_brefs(n[1], g))
    if k in ("rep", "prep"):
        return (k, expand_brefs(n[1], g), n[2], n[3])
    raise Unsupported(k)


def local_caps(n):
    """group numbers of the (unexpanded) capture groups inside n"""
    k = n[0]
    if k == "cap":
        return {n[1]} | local_caps(n[2])
    if k == "capval":
        return local_caps(n[2])
    if k in ("lit", "cls", "str", "set", "bref"):
        return set()
    if k in ("cat", "alt"):
        out = set()
        for x in n[1]:
            out |= local_caps(x)
        return out
    if k in ("grp", "nla", "pla", "rep", "prep", "plb", "nlb", "atomic"):
        return local_caps(n[1])
    raise Unsupported(k)


def expand_local(n, vals):
    """vals: {group number: text}; those groups become capval, their back-references literals; others untouched"""
    k = n[0]
    if k == "cap":
        if n[1] in vals:
            return ("capval", n[1], expand_local(n[2], vals), vals[n[1]])
        return ("cap", n[1], expand_local(n[2], vals))
    if k == "capval":
        return ("capval", n[1], expand_local(n[2], vals), n[3])
    if k == "bref":
        return ("str", vals[n[1]]) if n[1] in vals else n
    if k in ("lit", "cls", "str", "set"):
        return n
    if k in ("cat", "alt"):
        return (k, [expand_local(x, vals) for x in n[1]])
    if k in ("grp", "nla", "pla", "plb", "nlb", "atomic"):
        return (k, expand_local(n[1], vals))
    if k in ("rep", "prep"):
        return (k, expand_local(n[1], vals), n[2], n[3])
    raise Unsupported(k)


def split_leading_lookbehind(n):
    """R = (look-behinds at the very start) R'  ->  ([('plb'|'nlb', X), ...], R').  A look-behind anywhere else is
    rejected by the translator (Unsupported)."""
    top = n
    while top[0] == "grp":
        top = top[1]
    if top[0] in ("plb", "nlb"):
        return [top], ("cat", [])
    if top[0] != "cat":
        return [], n
    lbs, items = [], list(top[1])
    while items and items[0][0] in ("plb", "nlb"):
        lbs.append(items.pop(0))
    if not lbs:
        return [], n
    return lbs, ("cat", items)


# ------------------------------------------------------------------ z3 side
S = z3.StringSort()
RS = z3.ReSort(S)
EMPTY = z3.Empty(RS)
EPS = z3.Re("")


def union(xs):
    xs = list(xs)
    if not xs:
        return EMPTY
    return xs[0] if len(xs) == 1 else z3.Union(*xs)


def concat(xs):
    xs = list(xs)
    if not xs:
        return EPS
    return xs[0] if len(xs) == 1 else z3.Concat(*xs)


def inter(*xs):
    return xs[0] if len(xs) == 1 else z3.Intersect(*xs)


def comp(x):
    return z3.Complement(x)


def loop(a, lo, hi):
    if hi is None:
        if lo == 0:
            return z3.Star(a)
        if lo == 1:
            return z3.Plus(a)
        return z3.Concat(z3.Loop(a, lo, lo), z3.Star(a))
    if lo == hi == 1:
        return a
    if hi == 0:
        return EPS
    return z3.Loop(a, lo, hi)


class World:
    """An alphabet (code points) replicated in a set of colours."""

    def __init__(self, alphabet=PRINTABLE, colours=(0,)):
        self.alphabet = tuple(sorted(alphabet))
        self.colours = tuple(colours)
        self._cache = {}
        self.ANY = z3.Star(self.chars(self.alphabet, self.colours))

    def chars(self, codes, cols):
        key = (tuple(sorted(set(codes))), tuple(cols))
        if key in self._cache:
            return self._cache[key]
        cs = key[0]
        rs = []
        for k in cols:
            i = 0
            while i < len(cs):
                j = i
                while j + 1 < len(cs) and cs[j + 1] == cs[j] + 1:
                    j += 1
                rs.append(z3.Range(chr(cs[i] + SH * k), chr(cs[j] + SH * k)))
                i = j + 1
        r = union(rs)
        self._cache[key] = r
        return r

    def sigma(self, cols):
        return self.chars(self.alphabet, cols)

    def cls_codes(self, neg, items):
        return [c for c in self.alphabet if any(a <= c <= b for a, b in items) != neg]

    def lit(self, text, cols):
        return concat(self.chars([ord(ch)], cols) for ch in text)

    def decode(self, s):
        """coloured string -> (plain text, colour string)"""
        return "".join(chr(ord(c) % SH) for c in s), [ord(c) // SH for c in s]


def unescape_model_string(v):
    return _re.sub(r"\\u\{(\w+)\}", lambda m: chr(int(m.group(1), 16)), v)


class Tr:
    """Translate a parsed regex to a z3 RE in a World.

    cols    colours consumed characters may carry
    lacols  colours characters inspected inside a look-ahead may carry
    grpcols optional {group_number: colours} override for the leaves inside capturing group n
    munch   optional set of id(rep-node) that are to be read as maximal munch  C+(?!C)
    """

    def __init__(self, world, star_cap=STAR_CAP):
        self.w = world
        self.star_cap = star_cap
        self.rewrites = set()

    def leaf(self, n, cols):
        if n[0] == "lit":
            code = ord(n[1])
            if code not in self.w.alphabet:
                raise Unsupported(f"literal {n[1]!r} outside the alphabet")
            return self.w.chars([code], cols)
        if n[0] == "str":
            for ch in n[1]:
                if ord(ch) not in self.w.alphabet:
                    raise Unsupported(f"literal {ch!r} outside the alphabet")
            return self.w.lit(n[1], cols)
        if n[0] == "set":
            codes = [c for c in n[1] if c in self.w.alphabet]
        else:
            codes = self.w.cls_codes(n[1], n[2])
        if not codes:
            return EMPTY
        return self.w.chars(codes, cols)

    def _bounds(self, lo, hi):
        if hi is not None and self.star_cap is not None and hi >= self.star_cap:
            self.rewrites.add(f"{{{lo},{hi}}} -> {{{lo},}}")
            hi = None
        return lo, hi

    def plain(self, n, cols, grpcols=None):
        k = n[0]
        if k in ("lit", "cls", "str", "set"):
            return self.leaf(n, cols)
        if k == "cat":
            return concat(self.plain(x, cols, grpcols) for x in n[1])
        if k == "alt":
            return union(self.plain(x, cols, grpcols) for x in n[1])
        if k == "grp":
            return self.plain(n[1], cols, grpcols)
        if k == "cap":
            c2 = grpcols.get(n[1], cols) if grpcols else cols
            return self.plain(n[2], c2, grpcols)
        if k == "capval":
            return inter(self.plain(n[2], cols, grpcols), self.w.lit(n[3], cols))
        if k == "rep":
            lo, hi = self._bounds(n[2], n[3])
            return loop(self.plain(n[1], cols, grpcols), lo, hi)
        if k == "bref":
            if getattr(self, "local_dom", None) and n[1] in self.local_dom:
                # a reference to a group that is only ever set INSIDE a negative look-ahead, met outside that look-ahead (or
                # in another one): the group has not participated in the match there, the engine fails the reference
                self.rewrites.add("back-reference to a group that is unset at that point matches nothing")
                return EMPTY
            raise Unsupported("back-reference (expand first)")
        if k in ("nla", "pla"):
            raise Unsupported("look-ahead in plain context")
        raise Unsupported(k)

    def lang(self, n, K, cols, lacols, grpcols=None):
        """strings = (a match of n, consumed chars coloured in cols) followed by a member of K"""
        if not has_la(n):
            return z3.Concat(self.plain(n, cols, grpcols), K)
        k = n[0]
        if k == "nla":
            loc = sorted(local_caps(n[1]))
            if loc:
                # capture groups defined INSIDE the negative look-ahead are local to it (the engine forgets them when the
                # look-ahead is left): "no value of the groups makes the body match" = intersection over the local domain
                dom = getattr(self, "local_dom", None) or {}
                if any(i not in dom for i in loc):
                    raise Unsupported("capture group inside a negative look-ahead without a local capture domain")
                r = K
                import itertools as _it
                for vals in _it.product(*[dom[i] for i in loc]):
                    body = expand_local(n[1], dict(zip(loc, vals)))
                    r = inter(r, comp(self.lang(body, self.w.ANY, lacols, lacols, None)))
                return r
            return inter(K, comp(self.lang(n[1], self.w.ANY, lacols, lacols, None)))
        if k == "pla":
            return inter(K, self.lang(n[1], self.w.ANY, lacols, lacols, None))
        if k in ("plb", "nlb"):
            raise Unsupported("look-behind that is not at the very start of the regex")
        if k == "atomic":
            # (?>A|B|C): the engine commits to the FIRST alternative that matches here, whatever follows.
            # Exact when each alternative has a unique extent at a position (replay confirms every witness anyway).
            self.rewrites.add("atomic group read as 'first matching alternative wins'")
            body = n[1]
            alts = body[1] if body[0] == "alt" else [body]
            outs, earlier = [], []
            for a in alts:
                r = self.lang(a, K, cols, lacols, grpcols)
                for e in earlier:
                    r = inter(r, comp(self.lang(e, self.w.ANY, lacols, lacols, None)))
                outs.append(r)
                earlier.append(a)
            return union(outs)
        if k == "cat":
            r = K
            for x in reversed(n[1]):
                r = self.lang(x, r, cols, lacols, grpcols)
            return r
        if k == "alt":
            return union(self.lang(x, K, cols, lacols, grpcols) for x in n[1])
        if k == "grp":
            return self.lang(n[1], K, cols, lacols, grpcols)
        if k == "cap":
            c2 = grpcols.get(n[1], cols) if grpcols else cols
            return self.lang(n[2], K, c2, lacols, grpcols)
        if k == "capval":
            raise Unsupported("look-ahead inside a capture group")
        if k == "prep":
            # possessive X{lo,hi}+ : k repetitions, and (unless k == hi) no further repetition is possible.
            # Exact when a repetition of X has a unique extent at each position (true for JASM's instruction-level
            # fragments); every witness is replayed on the real engine in any case.
            lo, hi = n[2], n[3]
            if hi is None or hi > MAX_UNROLL:
                raise Unsupported(f"possessive repetition {{{lo},{hi}}} beyond the unroll limit {MAX_UNROLL}")
            self.rewrites.add("possessive quantifier read as 'k repetitions and no further one'")
            stop = inter(K, comp(self.lang(n[1], self.w.ANY, lacols, lacols, None)))
            outs = []
            for cnt in range(lo, hi + 1):
                r = K if cnt == hi else stop
                for _ in range(cnt):
                    r = self.lang(n[1], r, cols, lacols, grpcols)
                outs.append(r)
            return union(outs)
        if k == "rep":
            lo, hi = n[2], n[3]
            if hi is None or hi > MAX_UNROLL:
                raise Unsupported(f"repetition {{{lo},{hi}}} of a body containing a look-ahead (unroll limit {MAX_UNROLL})")
            r = K
            for _ in range(hi - lo):
                r = z3.Union(K, self.lang(n[1], r, cols, lacols, grpcols))
            for _ in range(lo):
                r = self.lang(n[1], r, cols, lacols, grpcols)
            return r
        raise Unsupported(k)


# ------------------------------------------------------------------ queries
def lang_at_start(tr, astn, K, cols, lacols, grpcols=None):
    """language of matches starting at offset 0 OF THE WHOLE STRING (empty left context): leading look-behinds are
    decided against the empty prefix."""
    lbs, rest = split_leading_lookbehind(astn)
    for kind, x in lbs:
        eps_ok = str(z3.simplify(z3.InRe(z3.StringVal(""), tr.plain(x, tr.w.colours)))) == "True" if not has_la(x) else False
        if (kind == "plb" and not eps_ok) or (kind == "nlb" and eps_ok):
            return EMPTY
    return tr.lang(rest, K, cols, lacols, grpcols)


def left_context(tr, astn):
    """(language of prefixes after which the leading look-behinds hold, regex without them)"""
    lbs, rest = split_leading_lookbehind(astn)
    ctx = tr.w.ANY
    for kind, x in lbs:
        if has_la(x):
            raise Unsupported("look-ahead inside a look-behind")
        ends = z3.Concat(tr.w.ANY, tr.plain(x, tr.w.colours))
        ctx = inter(ctx, ends if kind == "plb" else comp(ends))
    return ctx, rest


class Q:
    """One solver, one free string; every query is a single membership constraint."""

    def __init__(self, timeout_ms=60000):
        self.timeout_ms = timeout_ms
        self.n = 0
        self.wall = 0.0
        self.tally = {"sat": 0, "unsat": 0, "unknown": 0}

    def check(self, r, extra=None, timeout_ms=None):
        """-> ('unsat', None) | ('sat', coloured string) | ('unknown', reason)"""
        import time

        s = z3.String("s")
        sol = z3.Solver()
        sol.set("timeout", timeout_ms or self.timeout_ms)
        sol.add(z3.InRe(s, r))
        if extra is not None:
            sol.add(extra(s))
        t = time.time()
        res = str(sol.check())
        self.wall += time.time() - t
        self.n += 1
        self.tally[res] = self.tally.get(res, 0) + 1
        if res == "sat":
            v = sol.model()[s]
            v = "" if v is None else unescape_model_string(v.as_string())
            if len(v) >= 1000:
                # the translation reads JASM's {0,1000} field bounds as unbounded (stated bound: fields shorter than 1000
                # characters); a witness that long may lie outside that bound, so ask for one inside it
                sol.add(z3.Length(s) < 1000)
                t = time.time()
                res2 = str(sol.check())
                self.wall += time.time() - t
                self.n += 1
                if res2 == "sat":
                    v = sol.model()[s]
                    return "sat", ("" if v is None else unescape_model_string(v.as_string()))
                self.tally[res] -= 1
                self.tally["unknown"] = self.tally.get("unknown", 0) + 1
                return "unknown", "the only witness found exceeds the stated 1000-character bound"
            return res, v
        if res == "unknown":
            return res, sol.reason_unknown()
        return res, None

    def crosscheck(self, r, expected, timeout_s=30):
        """second solver: the system z3 4.8.12 binary on the exported SMT-LIB2 text of the same query.
        -> 'agree' | 'disagree:<verdict>' | 'inconclusive:<why>'"""
        import os
        import subprocess
        import tempfile

        text = self.smt2(r)
        fd, path = tempfile.mkstemp(prefix="jasmverif_", suffix=".smt2")
        try:
            with os.fdopen(fd, "w") as f:
                f.write(text)
                if "(check-sat)" not in text:
                    f.write("\n(check-sat)\n")
            try:
                p = subprocess.run(["/usr/bin/z3", f"-T:{timeout_s}", path], capture_output=True, text=True, timeout=timeout_s + 30)
            except (subprocess.TimeoutExpired, FileNotFoundError) as e:
                return f"inconclusive:{type(e).__name__}"
            out = p.stdout.strip().splitlines()
            if any("(error" in l for l in out):
                return "inconclusive:error " + " ".join(out)[:120]
            verdict = out[0].strip() if out else "none"
            if verdict not in ("sat", "unsat"):
                return f"inconclusive:{verdict}"
            return "agree" if verdict == expected else f"disagree:{verdict}"
        finally:
            try:
                os.unlink(path)
            except FileNotFoundError:
                pass  # the scratch file was removed from outside (e.g. a /tmp clean-up while the run was in progress)

    def smt2(self, r):
        s = z3.String("s")
        sol = z3.Solver()
        sol.add(z3.InRe(s, r))
        return sol.to_smt2()


# ------------------------------------------------------------------ complement of a union, branch-wise
def dnf(r, cap=48):
    """list of z3 REs whose union is r: unions are pulled out of concatenations (bounded by cap)."""
    k = r.decl().kind()
    if k == z3.Z3_OP_RE_UNION:
        out = []
        for c in r.children():
            out.extend(dnf(c, cap))
        return out if len(out) <= cap else [r]
    if k == z3.Z3_OP_RE_CONCAT:
        parts = [dnf(c, cap) for c in r.children()]
        n = 1
        for p in parts:
            n *= len(p)
        if n == 1 or n > cap:
            return [r]
        out = []
        import itertools

        for combo in itertools.product(*parts):
            out.append(z3.Concat(*combo) if len(combo) > 1 else combo[0])
        return out
    return [r]


def ncomp(r, cap=48):
    """complement of r, written as an intersection of complements of its union branches
    (same language as Complement(r); z3's derivative engine handles this form far better)."""
    bs = dnf(r, cap)
    if len(bs) == 1:
        return comp(r)
    return z3.Intersect(*[comp(b) for b in bs])


# ------------------------------------------------------------------ random member of a (look-ahead free) regex
def sample(n, rnd, alphabet=PRINTABLE, star_max=3):
    """a random string matched by the parsed regex n (used to draw grammar members for differential validation)"""
    k = n[0]
    if k == "lit":
        return n[1]
    if k == "str":
        return n[1]
    if k == "cls":
        codes = [c for c in alphabet if any(a <= c <= b for a, b in n[2]) != n[1]]
        return chr(rnd.choice(codes))
    if k == "set":
        return chr(rnd.choice([c for c in n[1] if c in alphabet]))
    if k == "cat":
        return "".join(sample(x, rnd, alphabet, star_max) for x in n[1])
    if k == "alt":
        return sample(rnd.choice(n[1]), rnd, alphabet, star_max)
    if k == "grp":
        return sample(n[1], rnd, alphabet, star_max)
    if k == "cap":
        return sample(n[2], rnd, alphabet, star_max)
    if k == "atomic":
        return sample(n[1], rnd, alphabet, star_max)
    if k in ("rep", "prep"):
        lo, hi = n[2], n[3]
        if hi is None or hi > lo + star_max + 2:
            hi = lo + star_max
        return "".join(sample(n[1], rnd, alphabet, star_max) for _ in range(rnd.randint(lo, hi)))
    raise Unsupported(f"sample: {k}")
