"""RX lemma set for one template: build both languages, ask z3, replay every `sat` on the real code.

A *template* is a dict:
    id        unique text
    doc       the rule document handed to the REAL compiler (may use macros / config)
    macros    optional list of extra macro documents (files given on the command line)
    pattern   macro-free pattern the reference semantics interprets (default doc['pattern'])
    feature   selector component for KNOWN_FINDINGS (which DSL feature the template isolates)
    lemmas    subset of AEM SA HX EA NE VAL TWIN
    env_dom   optional {capture name: [values]} -> back-references expanded over the product
    twin      optional macro-free pattern that is deliberately different (must be distinguishable)

Worker functions are module level so they can run in a process pool.
"""
import itertools
import re
import time
import traceback

import z3

from . import rx
from .rx import Unsupported, comp, inter
from .spec import Spec, SpecError
from .oracle import Oracle

_state = {}


def worlds():
    if "U" not in _state:
        _state["U"] = rx.World(rx.PRINTABLE, (0,))
        _state["M"] = rx.World(rx.PRINTABLE, (1, 2))
    return _state["U"], _state["M"]


def flags_of(doc):
    cfg = doc.get("config") or {}
    return bool(cfg.get("mnemonics-full-match", False)), bool(cfg.get("operands-full-match", False))


def split_coloured(w, s):
    """coloured witness -> (plain text, length of the colour-1 prefix)"""
    plain, cols = w.decode(s)
    n1 = sum(1 for c in cols if c == 1)
    return plain, n1


def record_index(stream, offset):
    """index of the record that starts at `offset`, or None if offset is not a record boundary"""
    if offset == 0:
        return 0
    if offset > len(stream) or stream[offset - 1] != "|":
        return None
    return stream[:offset].count("|")


def real_admits(regex_text, stream, n):
    """Does the REAL compiled regex, run by the REAL engine at offset 0 of `stream`, admit a match of
    exactly the first n characters?  (forced end: the rest of the stream must follow literally, which
    leaves every look-ahead of the rule the context it has in `stream`)."""
    import regex

    return regex.fullmatch("(?:" + regex_text + ")" + regex.escape(stream[n:], literal_spaces=True), stream, timeout=60) is not None


def _mem_operand(w, reg):
    cols = w.colours
    ch = lambda t: w.chars([ord(c) for c in t], cols)
    lit = lambda t: w.lit(t, cols)
    opt = lambda r: z3.Option(r)
    disp = z3.Concat(opt(lit("-")), rx.union([z3.Concat(lit("0x"), z3.Plus(ch("0123456789abcdef"))), z3.Plus(ch("0123456789"))]))
    scaled = rx.concat([lit("["), opt(reg), opt(rx.concat([lit("+"), reg, lit("*"), ch("1248")])), opt(z3.Concat(lit("+"), disp)), lit("]")])
    pair16 = rx.concat([lit("["), reg, lit("+"), reg, opt(z3.Concat(lit("+"), disp)), lit("]")])  # k(%bx,%si) -> [a+b+k]
    return rx.union([scaled, pair16])


def _operand_fields_domain(w, bad):
    """streams in which no operand field (text between two commas) is in `bad`"""
    cols = w.colours
    return comp(rx.concat([w.ANY, w.lit(",", cols), bad, w.lit(",", cols), w.ANY]))


def att_mem_domain(w):
    """Input domain of the $deref properties (C03 deref part, C06): an operand field that contains any of
    '[', ']', '+', '*' is a memory operand as the operand normaliser emits it for objdump AT&T text (C09):
        [ (%reg)? (+%reg*scale)? (+disp)? ]   scale in 1 2 4 8, disp = -?0x[0-9a-f]+ or decimal digits
    Streams outside this domain (register without '%', '0x0x8', ...) are not objdump output."""
    cols = w.colours
    ch = lambda t: w.chars([ord(c) for c in t], cols)
    reg = z3.Concat(w.lit("%", cols), z3.Plus(ch("abcdefghijklmnopqrstuvwxyz0123456789")))
    fch = w.chars([c for c in w.alphabet if chr(c) not in ",|"], cols)
    special = z3.Concat(z3.Star(fch), ch("[]+*"), z3.Star(fch))
    return _operand_fields_domain(w, inter(special, comp(_mem_operand(w, reg))))


def _reg_vocab(w):
    from .spec import X86_REGS

    return rx.union([w.lit("%" + r, w.colours) for r in X86_REGS])


# operands that CONTAIN a register name without being that register: the target of an indirect branch as the operand normaliser
# leaves it (`jmp *%rax`), an x87 stack register. A register capture must not take them for the register.
NEAR_REGS = ["*%rax", "*%rsi", "*%rsp", "*%rbp", "*%r8", "*%eax", "*%bx", "%st(1)"]


def regs_domain(w):
    """Input domain of the register-family capture templates (C05): every non-empty operand field is an
    x86-64 general-purpose register name as objdump prints it (%rax ... %r15b) or a small immediate."""
    cols = w.colours
    vocab = rx.union([_reg_vocab(w), w.lit("0x1", cols), w.lit("1", cols)] + [w.lit(t, cols) for t in NEAR_REGS])
    fch = w.chars([c for c in w.alphabet if chr(c) not in ",|"], cols)
    return _operand_fields_domain(w, inter(z3.Plus(fch), comp(vocab)))


def att_mem_regs_domain(w):
    """registers, small immediates, or memory operands over those registers"""
    cols = w.colours
    vocab = rx.union([_reg_vocab(w), w.lit("0x1", cols), w.lit("1", cols), _mem_operand(w, _reg_vocab(w))])
    fch = w.chars([c for c in w.alphabet if chr(c) not in ",|"], cols)
    return _operand_fields_domain(w, inter(z3.Plus(fch), comp(vocab)))


def small_mnemonics_domain(w, vocab_names=("mov", "movz", "push", "pop", "nop", "d")):
    """Finite-vocabulary domain used for any-order groups with >= 4 children (the unrestricted complement does not
    terminate in z3): every record is  <one hex digit>::<mnemonic>,,|  with the mnemonic drawn from a vocabulary that
    contains the children's names, a proper extension of one of them and an unrelated name."""
    cols = w.colours
    lit = lambda t: w.lit(t, cols)
    vocab = rx.union([lit(m) for m in vocab_names])
    rec = rx.concat([w.chars([ord(c) for c in "0123456789abcdef"], cols), lit("::"), vocab, lit(",,|")])
    return z3.Star(rec)


DOMAINS = {"att_mem": att_mem_domain, "regs": regs_domain, "att_mem_regs": att_mem_regs_domain, "small_mnemonics": small_mnemonics_domain}


def literal_names(pattern):
    """mnemonic / operand names written literally in a pattern (reference side), longest first"""
    out = []

    def walk(n, key=False):
        if isinstance(n, str):
            if n and n[0] not in "$&@" and n.isalnum() and n not in out:
                out.append(n)
        elif isinstance(n, list):
            for x in n:
                walk(x)
        elif isinstance(n, dict):
            for k, v in n.items():
                if k in ("times", "min", "max"):
                    continue
                walk(k)
                walk(v)

    walk(pattern)
    return sorted(out, key=lambda x: (-len(x), x))


def check_template(tpl):
    """-> result dict (picklable)"""
    from . import jasmapi

    t0 = time.time()
    res = {"id": tpl["id"], "feature": tpl.get("feature", "base"), "obl": [], "regex": None, "error": None, "solver_s": 0.0, "queries": 0}
    doc = tpl["doc"]
    pattern = tpl.get("pattern", doc.get("pattern"))
    lem = tpl.get("lemmas", ("AEM", "SA", "HX", "EA", "NE", "VAL"))
    try:
        regex_text = jasmapi.compile_rule(doc, tpl.get("macros"))
    except Exception as e:  # the real compiler refused the template
        res["error"] = f"compile: {type(e).__name__}: {e}"
        return res
    res["regex"] = regex_text
    U, M = worlds()
    q = rx.Q(timeout_ms=tpl.get("timeout_ms", 60000))
    mf, of = flags_of(doc)
    orc = Oracle(mf, of)
    try:
        ast, ngroups = rx.parse(regex_text)
    except Unsupported as e:
        res["error"] = f"unsupported regex: {e}"
        return res

    env_dom = tpl.get("env_dom")
    envs = [None]
    local_dom = tpl.get("local_dom") or {}
    if env_dom or local_dom:
        names = list(env_dom or {})
        envs = [dict(zip(names, vals)) for vals in itertools.product(*[env_dom[n] for n in names])]
    elif rx.has_bref(ast) or ngroups:
        res["error"] = "regex has capture groups but the template gives no capture domain"
        return res

    def obligation(name, direction, verdict, detail=None, **kw):
        o = {"lemma": name, "dir": direction, "verdict": verdict}
        if detail is not None:
            o["detail"] = detail
        o.update(kw)
        res["obl"].append(o)
        return o

    for env in envs:
        try:
            if env is not None:
                order = tpl["capture_order"]  # capture names in group-number order
                g = [env.get(n) for n in order]   # None: a capture local to a $not argument (tpl["local_dom"])
                east = rx.expand_brefs(ast, g)
            else:
                east = ast
            tU, tM = rx.Tr(U), rx.Tr(M)
            tU.local_dom = tM.local_dom = {order.index(n) + 1: vs for n, vs in local_dom.items()} if local_dom else {}
            sU = Spec(U, mf, of, env, local_dom)
            sM = Spec(M, mf, of, env, local_dom)
            envtag = "" if env is None else " env=" + ",".join(f"{k}={v}" for k, v in env.items())

            if "AEM" in lem or "EA" in lem or "NE" in lem or "TWIN" in lem:
                S1, S2 = M.sigma((1,)), M.sigma((2,))
                K2 = z3.Star(S2)
                WF12 = inter(sM.WF((1, 2)), z3.Concat(z3.Star(S1), K2))
                if tpl.get("domain"):
                    dom = tpl["domain"]
                    WF12 = inter(WF12, DOMAINS[dom](M) if isinstance(dom, str) else DOMAINS[dom[0]](M, tuple(dom[1])))
                LM = rx.lang_at_start(tM, east, K2, (1,), (1, 2))
            if "AEM" in lem or "TWIN" in lem:
                SM = sM.seq(pattern, K2, (1,))
            if "AEM" in lem:
                for direction, r in (("J-S", inter(WF12, LM, comp(SM))), ("S-J", inter(WF12, SM, comp(LM)))):
                    if direction not in tpl.get("aem_dirs", ("J-S", "S-J")):
                        continue
                    v, w = q.check(r)
                    if tpl.get("crosscheck") and v in ("sat", "unsat"):
                        obligation("XCHECK", direction, q.crosscheck(r, v))
                    if v == "sat":
                        stream, n1 = split_coloured(M, w)
                        L = jasmapi.decode_stream(stream)
                        ra = real_admits(regex_text, stream, n1)
                        idx = record_index(stream, n1)
                        oa = idx is not None and idx in orc.ends(pattern, L, 0) and (n1 > 0 or True)
                        confirmed = (ra and not oa) if direction == "J-S" else (oa and not ra)
                        obligation("AEM", direction, "sat", envtag.strip() or None, stream=stream, extent=n1, real_admits=ra, oracle_admits=oa, confirmed=confirmed)
                        if not confirmed:
                            # the encoding of the COMPILED regex misrepresents it (e.g. a capture group the template does not
                            # expect shifted the numbering): let the solver pick a member of the REFERENCE language under this
                            # binding and run the real engine on it (bug hunting; only a confirmed disagreement is reported)
                            v3, w3 = q.check(inter(WF12, SM))
                            if v3 == "sat":
                                st3, n3 = split_coloured(M, w3)
                                ra3 = real_admits(regex_text, st3, n3)
                                idx3 = record_index(st3, n3)
                                oa3 = idx3 is not None and idx3 in orc.ends(pattern, jasmapi.decode_stream(st3), 0)
                                if oa3 and not ra3:
                                    obligation("AEM", "S-J", "sat", "reference-side witness (the encoding of the compiled regex did not reproduce)" + envtag, stream=st3, extent=n3, real_admits=ra3, oracle_admits=oa3, confirmed=True)
                    else:
                        obligation("AEM", direction, v, w if v == "unknown" else (envtag.strip() or None))
            if "AEM" in lem and env is not None and not res.get("spec_nonempty"):
                # vacuity guard for capture templates: under at least one binding the reference language must be non-empty
                vne, _ = q.check(inter(WF12, SM))
                if vne == "sat":
                    res["spec_nonempty"] = True
            if "EA" in lem:
                notbar = M.chars([c for c in M.alphabet if c != ord("|")], (1,))
                v, w = q.check(inter(WF12, LM, z3.Concat(z3.Star(S1), notbar, K2)))
                if v == "sat":
                    stream, n1 = split_coloured(M, w)
                    ra = real_admits(regex_text, stream, n1)
                    obligation("EA", "-", "sat", stream=stream, extent=n1, real_admits=ra, confirmed=bool(ra and stream[n1 - 1] != "|"))
                else:
                    obligation("EA", "-", v, w if v == "unknown" else None)
            if "NE" in lem:
                v, w = q.check(inter(WF12, LM, K2))
                if v == "sat":
                    stream, n1 = split_coloured(M, w)
                    ra = real_admits(regex_text, stream, 0)
                    obligation("NE", "-", "sat", stream=stream, extent=0, real_admits=ra, confirmed=bool(ra))
                else:
                    obligation("NE", "-", v, w if v == "unknown" else None)
            if "TWIN" in lem and tpl.get("twin") is not None:
                TW = sM.seq(tpl["twin"], K2, (1,))
                v1, _ = q.check(inter(WF12, LM, comp(TW)))
                v2, _ = q.check(inter(WF12, TW, comp(LM)))
                obligation("TWIN", "-", "refuted" if "sat" in (v1, v2) else ("NOT-REFUTED" if (v1, v2) == ("unsat", "unsat") else "unknown"))

            if "SA" in lem or "HX" in lem or "VAL" in lem:
                L0 = rx.lang_at_start(tU, east, U.ANY, (0,), (0,))
                CTX0, rest0 = rx.left_context(tU, east)
                L0mid = tU.lang(rest0, U.ANY, (0,), (0,))  # match of the body at a position whose left context satisfies CTX0
                WF0 = sU.WF((0,))
                HEX0 = sU.HEX((0,))
                import regex as _regex

                creal = _regex.compile(regex_text)
            if "SA" in lem:
                has_lb = bool(rx.split_leading_lookbehind(east)[0])
                pre_sa = comp(z3.Concat(WF0, z3.Star(HEX0)))
                v, w = q.check(inter(WF0, z3.Concat(inter(pre_sa, CTX0) if has_lb else pre_sa, L0mid)))
                if v == "sat":
                    stream, _ = U.decode(w)[0], None
                    bad = None
                    for p in range(len(stream) + 1):
                        if creal.match(stream, p) and not re.fullmatch(r"(?:[^|]*\|)*[0-9a-f]*", stream[:p]):
                            bad = p
                            break
                    obligation("SA", "-", "sat", stream=stream, offset=bad, confirmed=bad is not None)
                else:
                    obligation("SA", "-", v, w if v == "unknown" else None)
            if "HX" in lem:
                has_lb = bool(rx.split_leading_lookbehind(east)[0])
                v, w = q.check(inter(WF0, z3.Concat(inter(z3.Plus(HEX0), CTX0) if has_lb else z3.Plus(HEX0), L0mid), comp(L0)))
                if v == "sat":
                    stream = U.decode(w)[0]
                    bad = None
                    if not creal.match(stream):
                        for p in range(1, len(stream)):
                            if re.fullmatch(r"[0-9a-f]+", stream[:p]) and creal.match(stream, p):
                                bad = p
                                break
                    obligation("HX", "-", "sat", stream=stream, offset=bad, confirmed=bad is not None)
                else:
                    obligation("HX", "-", v, w if v == "unknown" else None)
            if "VAL" in lem and env is None:
                # translator validation: solver-chosen member / non-member vs. the real engine
                v, w = q.check(inter(WF0, L0))
                if v == "sat":
                    s = U.decode(w)[0]
                    ok = creal.match(s) is not None
                    obligation("VAL", "member", "ok" if ok else "MISMATCH", stream=s)
                    # end to end: the same witness as objdump-style text through MasterOfPuppets (parser included)
                    def e2e(s, tag):
                        try:
                            listing = jasmapi.render_listing(jasmapi.decode_stream(s))
                            if listing is not None and jasmapi.parse_listing(listing) == s:
                                try:
                                    got = jasmapi.run_pipeline(doc, listing, tpl.get("macros"), all_matches=False, ret="bool")
                                except Exception as e:
                                    got = f"{type(e).__name__}: {e}"
                                if got is True:
                                    obligation("E2E", tag, "ok", stream=s)
                                else:
                                    # the listing parses to s, the compiled rule matches s at its start and the reference finds the
                                    # pattern there: a pipeline that does not answer "found" contradicts the property itself
                                    oa = bool(orc.ends(pattern, jasmapi.decode_stream(s), 0))
                                    obligation("E2E", tag, "NOTFOUND", stream=s, listing=listing, detail=str(got), confirmed=oa)
                        except Exception as e:
                            obligation("E2E", tag, "MISMATCH", stream=s, detail=f"{type(e).__name__}: {e}")

                    e2e(s, "member")
                    if tpl.get("e2e_absent"):
                        # further members chosen by the solver so that one of the rule's literal names does NOT occur anywhere in
                        # the listing (possible when the name sits in an optional, alternative or negated part): the pipeline
                        # must not take a short cut that demands it
                        for nm in literal_names(pattern)[:5]:
                            v2, w2 = q.check(inter(WF0, L0, comp(z3.Concat(U.ANY, U.lit(nm, (0,)), U.ANY))))
                            if v2 == "sat":
                                e2e(U.decode(w2)[0], f"without:{nm}")
                    # end to end, negative: perturb the witness (swap the case of every letter of mnemonics/operands);
                    # if the compiled regex, applied directly, no longer matches anywhere, the pipeline must say not found
                    try:
                        L2 = [(a, m_.swapcase(), [o.swapcase() for o in ops]) for a, m_, ops in jasmapi.decode_stream(s)]
                        s2 = jasmapi.encode_stream(L2)
                        if s2 != s and creal.search(s2) is None:
                            found2, hits2, _ = jasmapi.run_consumer(regex_text, L2, all_matches=False)
                            obligation("E2EN", "perturbed", "ok" if not found2 else "MISMATCH", stream=s2)
                    except Exception as e:
                        obligation("E2EN", "perturbed", "MISMATCH", stream=s, detail=f"{type(e).__name__}: {e}")
                else:
                    obligation("VAL", "member", "EMPTY-LANGUAGE" if v == "unsat" else v)
                v, w = q.check(inter(WF0, z3.Concat(sU.REC((0,)), U.ANY), comp(L0)))
                if v == "sat":
                    s = U.decode(w)[0]
                    ok = creal.match(s) is None
                    obligation("VAL", "nonmember", "ok" if ok else "MISMATCH", stream=s)
                else:
                    obligation("VAL", "nonmember", v)
            res.setdefault("rewrites", sorted(tU.rewrites | tM.rewrites))
        except (Unsupported, SpecError) as e:
            obligation("ENCODE", "-", "unsupported", f"{type(e).__name__}: {e}")
            if isinstance(e, Unsupported) and env is None:
                # The compiled regex uses a construct the translator does not encode, so nothing can be DECIDED for this
                # template (reported as a harness error). The reference side is still encodable: let the solver choose
                # members / non-members of the REFERENCE language and run the real engine on them (bug hunting, replayable).
                try:
                    sM2 = Spec(M, mf, of, None)
                    S1, S2 = M.sigma((1,)), M.sigma((2,))
                    K2 = z3.Star(S2)
                    WF12 = inter(sM2.WF((1, 2)), z3.Concat(z3.Star(S1), K2))
                    if tpl.get("domain"):
                        dom = tpl["domain"]
                        WF12 = inter(WF12, DOMAINS[dom](M) if isinstance(dom, str) else DOMAINS[dom[0]](M, tuple(dom[1])))
                    SM = sM2.seq(pattern, K2, (1,))
                    for tag, r in (("S-J", inter(WF12, SM)), ("S-J", inter(WF12, SM, z3.Concat(z3.Star(S1), z3.Plus(S2)))), ("J-S", inter(WF12, comp(SM), z3.Concat(z3.Plus(S1), K2)))):
                        v, w = q.check(r)
                        if v != "sat":
                            continue
                        stream, n1 = split_coloured(M, w)
                        ra = real_admits(regex_text, stream, n1)
                        idx = record_index(stream, n1)
                        oa = idx is not None and idx in orc.ends(pattern, jasmapi.decode_stream(stream), 0)
                        if (tag == "S-J" and oa and not ra) or (tag == "J-S" and ra and not oa):
                            obligation("AEM", tag, "sat", "reference-side witness (translator could not encode the compiled regex)", stream=stream, extent=n1, real_admits=ra, oracle_admits=oa, confirmed=True)
                except Exception:
                    pass
        except Exception as e:
            obligation("ENCODE", "-", "error", traceback.format_exc(limit=4))
    if env_dom and "AEM" in lem and not res.get("spec_nonempty") and not res["error"] and not any(o["lemma"] == "ENCODE" for o in res["obl"]):
        obligation("ENCODE", "-", "error", "vacuous template: the reference language is empty under every binding of the capture domain")
    res["solver_s"] = q.wall
    res["queries"] = q.n
    res["tally"] = q.tally
    res["wall_s"] = time.time() - t0
    return res


def run_templates(run, templates, procs=16):
    """Run templates in a pool, feed the Run collector. Returns list of result dicts."""
    import multiprocessing as mp

    t0 = time.time()
    from .common import seed as _seed, tier as _tier

    if _tier() == "thorough":
        import random as _random

        rnd = _random.Random(_seed() + 77)
        picks = [t for t in templates if not t.get("env_dom") and not t.get("local_dom")]
        for t in rnd.sample(picks, max(1, len(picks) // 20)) if picks else []:
            t["crosscheck"] = True
    ctx = mp.get_context("fork")
    if procs > 1 and len(templates) > 1:
        with ctx.Pool(min(procs, len(templates))) as pool:
            results = pool.map(check_template, templates, chunksize=max(1, len(templates) // (procs * 8)))
    else:
        results = [check_template(t) for t in templates]
    by_id = {t["id"]: t for t in templates}
    for r in results:
        tpl = by_id[r["id"]]
        run.count("templates")
        run.count("queries", r["queries"])
        run.solver_s += r["solver_s"]
        if r["error"]:
            expected = tpl.get("expect_compile_error")
            if expected:
                run.count("compile_errors_expected")
            else:
                run.harness_error(f"template {r['id']}: {r['error']}")
            continue
        for o in r["obl"]:
            lemma, v = o["lemma"], o["verdict"]
            run.count(f"{lemma}:{v}")
            key = f"{r['feature']}/{lemma}/{o['dir']}"
            if lemma == "ENCODE":
                run.harness_error(f"template {r['id']}: {o.get('detail')}")
            elif lemma == "TWIN":
                if v == "unknown":
                    run.inconc(f"template {r['id']}: wrong-spec twin gave no verdict (timeout)")
                elif v != "refuted":
                    run.harness_error(f"template {r['id']}: wrong-spec twin was not distinguished (vacuous encoding?)")
            elif lemma == "E2EN":
                if v == "MISMATCH":
                    run.count("disagreements_replayed")
                    run.failure(f"{r['feature']}/E2EN/-", f"template={r['id']}: the compiled regex does not match the stream {o.get('stream')!r} anywhere, but the consumer reports a match (the rule is not applied as compiled)", {"kind": "e2en", "template": tpl, "regex": r["regex"], "stream": o.get("stream")})
                else:
                    run.count("traces_validated_end_to_end")
            elif lemma == "XCHECK":
                if v.startswith("disagree"):
                    run.harness_error(f"template {r['id']}: second solver (z3 4.8.12) {v} on AEM {o['dir']}")
                elif v == "agree":
                    run.count("second_solver_agreements")
            elif lemma == "E2E":
                if v == "NOTFOUND" and o.get("confirmed"):
                    run.count("disagreements_replayed")
                    run.failure(f"{r['feature']}/E2E/-", f"template={r['id']}: the listing rendered from {o.get('stream')!r} parses back to that stream, the compiled rule matches it and the reference finds the pattern, but the match pipeline answers {o.get('detail')}", {"kind": "e2e", "template": tpl, "regex": r["regex"], "stream": o.get("stream"), "listing": o.get("listing")})
                elif v in ("MISMATCH", "NOTFOUND"):
                    run.harness_error(f"template {r['id']}: end-to-end run on rendered witness {o.get('stream')!r} did not find the pattern ({o.get('detail')})")
                else:
                    run.count("traces_validated_end_to_end")
            elif lemma == "VAL":
                if v == "MISMATCH":
                    run.harness_error(f"template {r['id']}: translator validation mismatch on {o.get('stream')!r} ({o['dir']})")
                elif v == "EMPTY-LANGUAGE":
                    run.harness_error(f"template {r['id']}: compiled rule matches no well-formed stream")
                elif v == "unknown":
                    run.inconc(f"template {r['id']}: VAL {o['dir']} unknown")
            elif v == "unknown":
                run.inconc(f"template {r['id']}: {lemma} {o['dir']} unknown ({o.get('detail')})")
            elif v == "sat":
                if o.get("confirmed"):
                    text = f"template={r['id']} lemma={lemma} dir={o['dir']} stream={o['stream']!r}"
                    if "extent" in o:
                        text += f" extent={o['extent']} real_admits={o.get('real_admits')} reference_admits={o.get('oracle_admits')}"
                    if o.get("offset") is not None:
                        text += f" offset={o['offset']}"
                    run.count("disagreements_replayed")
                    run.failure(key, text, {"kind": "rx", "template": tpl, "regex": r["regex"], "obligation": o})
                else:
                    run.harness_error(f"template {r['id']}: {lemma} {o['dir']} witness {o.get('stream')!r} did not reproduce on the real engine (encoding error)")
        if len(run.samples) < 8:
            run.sample({"template": r["id"], "pattern": tpl.get("pattern", tpl["doc"].get("pattern")), "regex": r["regex"][:200], "obligations": [(o["lemma"], o["dir"], o["verdict"]) for o in r["obl"]][:12]})
    run.coverage_extra["pool_wall_s"] = round(time.time() - t0, 2)
    return results


# ------------------------------------------------------------------ equivalence of two compiled rules (C13, C19)
def check_pair(tpl):
    """tpl: id, feature, doc_a (+macros_a) , doc_b (+macros_b).  Decides L(R_a) = L(R_b) with extents, for every listing."""
    from . import jasmapi

    res = {"id": tpl["id"], "feature": tpl.get("feature", "pair"), "obl": [], "error": None, "regex": None, "queries": 0, "solver_s": 0.0, "identical": False}
    try:
        ra = jasmapi.compile_rule(tpl["doc_a"], tpl.get("macros_a"))
    except Exception as e:
        res["error"] = f"compile A: {type(e).__name__}: {e}"
        return res
    try:
        rb = jasmapi.compile_rule(tpl["doc_b"], tpl.get("macros_b"))
    except Exception as e:
        res["error"] = f"compile B: {type(e).__name__}: {e}"
        return res
    res["regex"] = ra
    res["regex_b"] = rb
    if ra == rb:
        res["identical"] = True
        return res
    U, M = worlds()
    q = rx.Q(timeout_ms=tpl.get("timeout_ms", 60000))
    try:
        asta, ga = rx.parse(ra)
        astb, gb = rx.parse(rb)
        if ga or gb:
            raise Unsupported("capture groups in a macro pair (texts differ)")
        tM = rx.Tr(M)
        sM = Spec(M)
        S1, S2 = M.sigma((1,)), M.sigma((2,))
        K2 = z3.Star(S2)
        WF12 = inter(sM.WF((1, 2)), z3.Concat(z3.Star(S1), K2))
        LA = tM.lang(asta, K2, (1,), (1, 2))
        LB = tM.lang(astb, K2, (1,), (1, 2))
        for direction, r in (("A-B", inter(WF12, LA, comp(LB))), ("B-A", inter(WF12, LB, comp(LA)))):
            v, w = q.check(r)
            o = {"lemma": "EQ", "dir": direction, "verdict": v}
            if v == "sat":
                stream, n1 = split_coloured(M, w)
                xa, xb = real_admits(ra, stream, n1), real_admits(rb, stream, n1)
                o.update(stream=stream, extent=n1, real_admits=xa, oracle_admits=xb, confirmed=xa != xb)
            elif v == "unknown":
                o["detail"] = w
            res["obl"].append(o)
    except Unsupported as e:
        res["obl"].append({"lemma": "ENCODE", "dir": "-", "verdict": "unsupported", "detail": str(e)})
    res["queries"], res["solver_s"] = q.n, q.wall
    return res


def run_pairs(run, pairs, procs=16):
    import multiprocessing as mp

    ctx = mp.get_context("fork")
    if procs > 1 and len(pairs) > 1:
        with ctx.Pool(min(procs, len(pairs))) as pool:
            results = pool.map(check_pair, pairs, chunksize=max(1, len(pairs) // (procs * 8)))
    else:
        results = [check_pair(t) for t in pairs]
    by_id = {t["id"]: t for t in pairs}
    for r in results:
        tpl = by_id[r["id"]]
        run.count("pairs")
        run.count("queries", r["queries"])
        run.solver_s += r["solver_s"]
        if r["error"]:
            run.count("pair_compile_error")
            run.failure(f"{r['feature']}/COMPILE/-", f"pair={r['id']} {r['error']}", {"kind": "pair", "pair": tpl, "error": r["error"]})
            continue
        if r["identical"]:
            run.count("pairs_text_identical")
        else:
            run.count("pairs_text_differs")
        for o in r["obl"]:
            run.count(f"{o['lemma']}:{o['verdict']}")
            if o["lemma"] == "ENCODE":
                run.harness_error(f"pair {r['id']}: {o['detail']}")
            elif o["verdict"] == "unknown":
                run.inconc(f"pair {r['id']}: EQ {o['dir']} unknown")
            elif o["verdict"] == "sat":
                if o["confirmed"]:
                    run.count("disagreements_replayed")
                    run.failure(f"{r['feature']}/EQ/{o['dir']}", f"pair={r['id']} stream={o['stream']!r} extent={o['extent']} macro_rule_admits={o['real_admits']} inlined_rule_admits={o['oracle_admits']}", {"kind": "pair", "pair": tpl, "obligation": o, "regex_a": r["regex"], "regex_b": r["regex_b"]})
                else:
                    run.harness_error(f"pair {r['id']}: witness {o['stream']!r} did not reproduce")
        if len(run.samples) < 8:
            run.sample({"pair": r["id"], "macro_rule": tpl["doc_a"], "extra_macro_files": tpl.get("macros_a"), "inlined_rule": tpl["doc_b"], "identical_text": r["identical"], "obligations": [(o["lemma"], o["dir"], o["verdict"]) for o in r["obl"]]})
    return results


# ------------------------------------------------------------------ translator validation on the repo's own pairs
def repo_pairs_validation(run, max_listing_bytes=400000, window=1200):
    """The repo's (rule, listing) test pairs through both the real engine and the encoding (ground membership in z3):
    where the real engine finds a match the matched window must be a member of the translated language; record starts
    before the leftmost match (or the first ones of a listing without a match) must be non-members (look-ahead free
    rules only, because the window is truncated)."""
    import os

    import regex
    import yaml

    from . import jasmapi
    from .common import REPO

    U, _ = worlds()
    cfgp = os.path.join(REPO, "tests/configuration.yaml")
    try:
        cfg = yaml.safe_load(open(cfgp))
    except Exception as e:
        run.inconc(f"repo pair validation: cannot read {cfgp}: {e}")
        return
    from jasm.jasm_regex.yaml2regex import Yaml2Regex

    done = 0
    for e in cfg.get("test_matching", []):
        if "assembly" not in e:
            continue
        ap = os.path.join(REPO, e["assembly"])
        if not os.path.exists(ap) or os.path.getsize(ap) > max_listing_bytes or os.path.getsize(ap) == 0:
            continue
        try:
            R = Yaml2Regex(os.path.join(REPO, e["yaml"]), macros_from_terminal=[os.path.join(REPO, m) for m in e.get("macros", [])] or None).produce_regex()
            ast, ng = rx.parse(R)
            if ng or rx.has_bref(ast):
                continue
            tr = rx.Tr(U)
            L0 = tr.lang(ast, U.ANY, (0,), (0,))
        except (Unsupported, Exception):
            continue
        stream = jasmapi.parse_listing(open(ap).read())
        if any(ord(c) not in U.alphabet for c in stream[:200000]):
            continue
        m = regex.search(R, stream, timeout=60)
        starts = [0] + [i + 1 for i, c in enumerate(stream[:20000]) if c == "|"]

        def member(text):
            s = z3.Solver()
            s.set("timeout", 30000)
            s.add(z3.InRe(z3.StringVal(text), L0))
            return str(s.check())

        if m:
            end = stream.find("|", min(len(stream) - 1, m.end() + window))
            v = member(stream[m.start(): (end + 1) if end >= 0 else len(stream)])
            done += 1
            if v == "unsat":
                run.harness_error(f"repo pair {e['title']}: real engine matches at offset {m.start()} but the window is not in the translated language")
        if not rx.has_la(ast):
            before = [p for p in starts if (m is None or p < m.start())][:4]
            for p in before:
                end = stream.find("|", min(len(stream) - 1, p + window))
                v = member(stream[p: (end + 1) if end >= 0 else len(stream)])
                done += 1
                if v == "sat" and regex.compile(R).match(stream[p: (end + 1) if end >= 0 else len(stream)]) is None:
                    run.harness_error(f"repo pair {e['title']}: record start {p} is a member of the translated language but the real engine does not match there")
    run.count("repo_pairs_ground_checks", done)
    run.count("traces_validated_end_to_end", done)



# ------------------------------------------------------------------ compile-sequence invariance (state kept between compilations)
def sequence_invariance(run, items, key_prefix):
    """items: list of (name, doc, extra_macro_files) where extra_macro_files is a list of (file name, macros list).
    All files live at STABLE paths in one scratch directory. For every ordered pair (X, Y): the regex of Y compiled after X
    must equal the regex of Y compiled before anything else in a fresh interpreter (errors compared by type)."""
    import json as _json
    import os
    import subprocess
    import sys as _sys

    from . import jasmapi
    from .common import SRC

    script = r"""
import sys, json, os, yaml, logging
sys.path.insert(0, sys.argv[1]); logging.disable(logging.CRITICAL)
from jasm.jasm_regex.yaml2regex import Yaml2Regex
items = json.loads(sys.argv[2]); seq = json.loads(sys.argv[3]); d = sys.argv[4]
out = []
for k in seq:
    name, doc, extra = items[k]
    p = os.path.join(d, name + ".yaml"); open(p, "w").write(yaml.safe_dump(doc, sort_keys=False))
    paths = []
    for fn, macros in extra or []:
        mp = os.path.join(d, fn); text = yaml.safe_dump({"macros": macros}, sort_keys=False)
        if not os.path.exists(mp) or open(mp).read() != text:
            open(mp, "w").write(text)          # a library file is only rewritten when its content really changes
        paths.append(mp)
    y = None
    try:
        y = Yaml2Regex(p, macros_from_terminal=paths or None)
        out.append(y.produce_regex())
    except Exception as e:
        out.append("EXC " + type(e).__name__)
    if len(seq) == 1:
        # the same rule object compiled a second time (repeating an operation gives the same result)
        try:
            out.append(y.produce_regex() if y is not None else out[-1])
        except Exception as e:
            out.append("EXC " + type(e).__name__)
print("RESULT " + json.dumps(out))
"""

    def run_seq(seq, d):
        sub = os.path.join(d, "s" + "_".join(map(str, seq)))  # stable paths WITHIN one sequence; sequences do not share files
        os.makedirs(sub, exist_ok=True)
        p = subprocess.run([_sys.executable, "-c", script, SRC, _json.dumps(items), _json.dumps(seq), sub], capture_output=True, text=True, timeout=300)
        for line in p.stdout.splitlines():
            if line.startswith("RESULT "):
                return _json.loads(line[7:])
        raise RuntimeError(p.stderr[-400:])

    from concurrent.futures import ThreadPoolExecutor

    n = len(items)
    with jasmapi.scratch() as d, ThreadPoolExecutor(12) as ex:
        fresh_runs = list(ex.map(lambda k: run_seq([k], d), range(n)))
        fresh = [r[0] for r in fresh_runs]
        for k, r in enumerate(fresh_runs):
            run.count("compile_sequences_checked")
            if r[1] != r[0]:
                run.count("disagreements_replayed")
                run.failure(f"{key_prefix}/RECOMPILE", f"produce_regex() called twice on one Yaml2Regex object of '{items[k][0]}' gives {r[1][:120]!r} the second time, {r[0][:120]!r} the first", {"kind": "sequence", "items": items, "seq": [k]})
        pairs = [(i, j) for i in range(n) for j in range(n)]
        for (i, j), res in zip(pairs, ex.map(lambda ij: run_seq(list(ij), d), pairs)):
            got = res[-1]
            run.count("compile_sequences_checked")
            if got != fresh[j]:
                run.count("disagreements_replayed")
                run.failure(f"{key_prefix}/SEQUENCE", f"compiling '{items[j][0]}' after '{items[i][0]}' gives {got[:120]!r}, in a fresh process {fresh[j][:120]!r}", {"kind": "sequence", "items": items, "seq": [i, j]})
