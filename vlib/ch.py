"""CH: run CrossHair (symbolic execution of the real Python functions with z3, per path) on generated harnesses.

A harness is the source of ONE function with a PEP-316 contract (`pre:` / `post: _`) whose body calls the real
code from /repo/src; it returns a bool that must be true.  Each harness gets its own file (prelude + function),
one `crosshair check` process, a fixed per-condition timeout, and is classified as

    confirmed        "Confirmed over all paths."            -> holds for every input within the stated shape
    counterexample   "false when calling f(args)" / "Exc: … when calling f(args)"
                     -> the call is re-executed concretely outside CrossHair; only a reproducing one counts
    not_confirmed    "Not confirmed."                       -> inconclusive (no counterexample within the budget)
    vacuous          "Unable to meet precondition."         -> harness error unless the twin is reachable

Every harness has a reachability twin (`post: not _`) that must be refuted.
"""
import concurrent.futures as cf
import os
import re
import shutil
import subprocess
import sys
import tempfile
import time

from .common import REPO, SRC, VERIF

PY = os.path.join(VERIF, ".venv", "bin", "python")
ATTEMPTS = 2

PRELUDE = f'''
import sys
sys.path.insert(0, {SRC!r})
sys.path.insert(0, {VERIF!r})
import logging
logging.disable(logging.CRITICAL)
from typing import List, Optional, Tuple, Dict
'''


class H:
    def __init__(self, name, src, timeout=60, prelude="", key=None, expect="confirm", note="", probe=None):
        self.name, self.src, self.timeout, self.prelude = name, src, timeout, prelude
        # optional concrete call sequence (strings), executed in ONE interpreter when CrossHair's own verdict is unusable
        # because the code under test keeps state between executions (non-reproducible counterexample, NotDeterministic)
        self.probe = probe or []
        self.key = key or name
        self.expect = expect
        self.note = note
        m = re.search(r"def\s+(\w+)\s*\(", src)
        self.func = m.group(1)


def _twin_src(h):
    s = h.src.replace(f"def {h.func}(", f"def {h.func}__twin(", 1)
    assert "post: _" in s, h.name
    return s.replace("post: _", "post: not _", 1)


def _run_one(dirpath, h, twin=False):
    fname = os.path.join(dirpath, f"{h.name.replace('/', '_')}{'__twin' if twin else ''}.py")
    src = PRELUDE + h.prelude + "\n\n" + (_twin_src(h) if twin else h.src) + "\n"
    with open(fname, "w") as f:
        f.write(src)
    t0 = time.time()
    timeout = min(h.timeout, 30) if twin else h.timeout
    # CrossHair's path exploration is randomised (string hashing): a run that wanders off is retried; a confirmation
    # is exhaustive over paths whichever attempt produces it, a counterexample is replayed concretely anyway.
    env = {k: v for k, v in os.environ.items() if k != "PYTHONHASHSEED"}
    attempts = 0
    out = ""
    for attempt in range(getattr(h, 'attempts', ATTEMPTS)):
        attempts += 1
        try:
            p = subprocess.run(
                [PY, "-m", "crosshair", "check", "--report_all", "--per_condition_timeout", str(timeout), "--per_path_timeout", str(max(15, timeout // 2)), fname],
                capture_output=True, text=True, timeout=timeout * 3 + 60, env=env,
            )
            out = p.stdout + p.stderr
        except subprocess.TimeoutExpired as e:
            out = "TIMEOUT-KILLED " + str(e)
        if "Confirmed over all paths" in out or "when calling" in out:
            break
    wall = time.time() - t0
    res = {"name": h.name, "twin": twin, "wall": wall, "attempts": attempts, "raw": out.strip()[-1500:], "file": fname, "status": "unknown", "call": None, "exc": None}
    if "Confirmed over all paths" in out:
        res["status"] = "confirmed"
    elif "Unable to meet precondition" in out:
        res["status"] = "vacuous"
    elif "Not confirmed" in out:
        res["status"] = "not_confirmed"
    m = re.search(r"error: (.*?) when calling (.*?)(?: \(which returns (.*)\))?$", out, re.M)
    if m:
        res["status"] = "counterexample"
        res["exc"] = m.group(1)
        res["call"] = m.group(2)
        res["returns"] = m.group(3)
    elif "error:" in out and res["status"] == "unknown":
        res["status"] = "tool_error"
    return res


def replay_call(h, call):
    """Re-execute the counterexample call concretely (plain Python, no CrossHair) in a fresh interpreter.
    -> ('false'|'true'|'exception:<T>: msg'|'replay-error: …')"""
    code = PRELUDE + h.prelude + "\n\n" + h.src + f"\n\ntry:\n    __r = {call}\n    print('REPLAY-RESULT', 'true' if __r else 'false')\nexcept Exception as __e:\n    print('REPLAY-RESULT', 'exception:' + type(__e).__name__ + ': ' + str(__e)[:200])\n"
    try:
        p = subprocess.run([PY, "-c", code], capture_output=True, text=True, timeout=120)
    except subprocess.TimeoutExpired:
        return "replay-error: timeout"
    m = re.search(r"REPLAY-RESULT (.*)", p.stdout)
    if not m:
        return "replay-error: " + (p.stderr.strip()[-300:] or p.stdout[-300:])
    return m.group(1)


def replay_sequence(h, calls):
    """Execute several harness calls one after the other in ONE fresh interpreter (a history of operations).
    -> (index of the first call that does not return true, its result) or (None, 'true')"""
    body = "".join(f"\ntry:\n    __r = {c}\n    print('REPLAY-RESULT', {i}, 'true' if __r else 'false')\nexcept Exception as __e:\n    print('REPLAY-RESULT', {i}, 'exception:' + type(__e).__name__ + ': ' + str(__e)[:200])\n" for i, c in enumerate(calls))
    try:
        p = subprocess.run([PY, "-c", PRELUDE + h.prelude + "\n\n" + h.src + "\n" + body], capture_output=True, text=True, timeout=300)
    except subprocess.TimeoutExpired:
        return None, "replay-error: timeout"
    got = re.findall(r"REPLAY-RESULT (\d+) (.*)", p.stdout)
    if len(got) != len(calls):
        return None, "replay-error: " + (p.stderr.strip()[-300:] or p.stdout[-300:])
    for i, r in got:
        if r != "true":
            return int(i), r
    return None, "true"


def _history_probe(run, h, calls, why):
    """-> True when a concrete history of harness calls in one process exposes a failing call (reported as a violation)"""
    i, r = replay_sequence(h, calls)
    if i is None:
        return False
    run.count("disagreements_replayed")
    run.failure(h.key, f"harness={h.name} ({why}) history of {len(calls)} calls in one process: call #{i + 1} {calls[i]} -> {r}; every call of the history returns true when run first in a fresh process", {"kind": "ch", "harness": h.name, "src": h.src, "prelude": h.prelude, "calls": calls, "call": calls[i], "replay": r})
    return True


def run_harnesses(run, harnesses, procs=16, twins=True):
    """Feed results into the Run collector. Returns list of result dicts."""
    d = tempfile.mkdtemp(prefix="jasmverif_ch_")
    results = []
    try:
        jobs = []
        with cf.ThreadPoolExecutor(max_workers=procs) as ex:
            for h in harnesses:
                jobs.append((h, False, ex.submit(_run_one, d, h, False)))
                if twins and h.expect == "confirm":
                    jobs.append((h, True, ex.submit(_run_one, d, h, True)))
            for h, twin, fut in jobs:
                r = fut.result()
                r["h"] = h
                results.append(r)
        for r in results:
            h = r["h"]
            run.count("harness_runs")
            if r["twin"]:
                if r["status"] == "counterexample":
                    run.count("twin_refuted")
                elif r["status"] == "confirmed":
                    # 'post: not _' holds on every path: the harness can never return True -> vacuous or wrong harness
                    run.count("twin_not_refuted")
                    run.harness_error(f"harness {h.name}: reachability twin CONFIRMED (the harness never returns true)")
                else:
                    # no verdict within the twin's budget (machine under load): recorded, not an error
                    run.count("twin_inconclusive")
                    run.inconc(f"harness {h.name}: reachability twin gave no verdict ({r['status']})")
                continue
            run.count(f"ch:{r['status']}")
            run.solver_s += r["wall"]
            if r["status"] == "confirmed":
                pass
            elif r["status"] == "counterexample":
                rep = replay_call(h, r["call"])
                r["replay"] = rep
                if rep == "true":
                    # the code under test kept state between CrossHair's executions: look for a concrete history
                    if not (_history_probe(run, h, [r["call"]] * 3, "non-reproducible counterexample, repeated") or (h.probe and _history_probe(run, h, h.probe + [r["call"]], "non-reproducible counterexample, after the probe sequence"))):
                        run.harness_error(f"harness {h.name}: counterexample {r['call']} did not reproduce concretely (returns true)")
                elif rep.startswith("replay-error"):
                    run.harness_error(f"harness {h.name}: counterexample {r['call']} could not be replayed: {rep}")
                else:
                    run.count("disagreements_replayed")
                    run.failure(h.key, f"harness={h.name} call={r['call']} concrete_replay={rep} ({r['exc']})", {"kind": "ch", "harness": h.name, "src": h.src, "prelude": h.prelude, "call": r["call"], "replay": rep})
            elif r["status"] == "not_confirmed":
                # no verdict (for instance code that starts threads, which CrossHair cannot follow): the harness's concrete
                # probe calls are at least executed (bug hunting); the claim itself stays inconclusive
                if not (h.probe and _history_probe(run, h, h.probe, "no verdict from CrossHair; concrete probe calls")):
                    run.inconc(f"harness {h.name}: not confirmed within {h.timeout}s (no counterexample found)")
            elif r["status"] == "vacuous":
                run.harness_error(f"harness {h.name}: unable to meet precondition")
            else:
                if not ("NotDeterministic" in r["raw"] and h.probe and _history_probe(run, h, h.probe + h.probe, "CrossHair reports NotDeterministic")):
                    run.harness_error(f"harness {h.name}: crosshair output not understood: {r['raw'][-300:]}")
            if len(run.samples) < 10:
                run.sample({"harness": h.name, "status": r["status"], "wall_s": round(r["wall"], 1), "contract": re.findall(r"(pre:.*|post:.*)", h.src), "note": h.note})
    finally:
        shutil.rmtree(d, ignore_errors=True)
    return [r for r in results]


def replay_record(rec):
    h = H(rec["harness"], rec["src"], prelude=rec.get("prelude", ""))
    if rec.get("calls"):
        i, rep = replay_sequence(h, rec["calls"])
        print(f"harness {rec['harness']}: history {rec['calls']} -> " + (f"call #{i + 1} {rep}" if i is not None else rep))
        return 0 if rep == "true" else 1
    rep = replay_call(h, rec["call"])
    print(f"harness {rec['harness']}: {rec['call']} -> {rep}")
    return 0 if rep == "true" else 1
