"""Thin drivers around the REAL JASM code in the repository's current working tree."""
import contextlib
import os
import shutil
import tempfile

import yaml

from .common import use_repo

use_repo()


@contextlib.contextmanager
def scratch():
    d = tempfile.mkdtemp(prefix="jasmverif_")
    try:
        yield d
    finally:
        shutil.rmtree(d, ignore_errors=True)


def compile_rule(doc, macros_docs=None):
    """doc (python object of a rule file) -> regex text from the real Yaml2Regex.  Exceptions propagate."""
    from jasm.jasm_regex.yaml2regex import Yaml2Regex

    with scratch() as d:
        p = os.path.join(d, "rule.yaml")
        with open(p, "w") as f:
            yaml.safe_dump(doc, f, sort_keys=False)
        mpaths = None
        if macros_docs:
            mpaths = []
            for i, m in enumerate(macros_docs):
                mp = os.path.join(d, f"macros{i}.yaml")
                with open(mp, "w") as f:
                    yaml.safe_dump(m, f, sort_keys=False)
                mpaths.append(mp)
        return Yaml2Regex(p, macros_from_terminal=mpaths).produce_regex()


def render_line(addr, mnem, ops, raw="48 89 e5"):
    """One objdump-style AT&T line for an instruction whose operand texts are given in *objdump* spelling."""
    txt = f"    {addr}:\t{raw:<21}\t{mnem}"
    if ops:
        txt += "    " + ",".join(ops)
    return txt


def denormalise_operand(op):
    """Stream operand text -> an objdump AT&T spelling the real parser normalises back to `op` (or None)."""
    import re

    if op == "":
        return None
    m = re.fullmatch(r"\[([^+\[\]]*)\+([^+*\[\]]+)\*([^+*\[\]]+)\+([^\[\]]+)\]", op)
    if m:
        return f"{m.group(4)}({m.group(1)},{m.group(2)},{m.group(3)})"
    m = re.fullmatch(r"\[([^+\[\]]*)\+([^+*\[\]]+)\*([^+*\[\]]+)\]", op)
    if m and m.group(1):
        return f"({m.group(1)},{m.group(2)},{m.group(3)})"
    m = re.fullmatch(r"\[([^+\[\]]+)\+([^+*\[\]]+)\]", op)
    if m:
        return f"{m.group(2)}({m.group(1)})"
    m = re.fullmatch(r"\[([^+\[\]]+)\]", op)
    if m:
        return f"({m.group(1)})"
    if any(ch in op for ch in "()[] #,"):
        return None
    if op.startswith("%") or op.startswith("*") or op.startswith("<"):
        return op
    if op.startswith("$"):
        return "$" + op
    if re.fullmatch(r"(0x)?[0-9a-f]+", op) or re.fullmatch(r"-?\d+", op):
        return "$" + op if op.startswith("0x") or not re.fullmatch(r"[0-9a-f]+", op) else op
    return "$" + op


def render_listing(instrs):
    """[(addr, mnem, [ops])] -> listing text, or None when some field cannot be spelt as objdump text."""
    lines = ["", "bin:     file format elf64-x86-64", "", "Disassembly of section .text:", "", "0000000000001000 <f>:"]
    for addr, mnem, ops in instrs:
        if not mnem or " " in mnem or "\t" in mnem:
            return None
        ops = list(ops)
        if ops == [""]:
            ops = []
        sp = []
        for o in ops:
            d = denormalise_operand(o)
            if d is None:
                return None
            sp.append(d)
        lines.append(render_line(addr, mnem, sp))
    return "\n".join(lines) + "\n"


def parse_listing(text):
    """listing text -> stream text through the real parser/consumer (no matching rule involved)."""
    from jasm.global_definitions import MatchingSearchMode
    from jasm.consumer import CompleteConsumer
    from jasm.matched_observers import MatchedObserver
    from jasm.stringify_asm.implementations.gnu_objdump.gnu_objdump_parser_manual import ObjdumpParserManual
    from jasm.stringify_asm.implementations.observers import RemoveEmptyInstructions

    obs = MatchedObserver()
    c = CompleteConsumer(regex_rule="(?!)", matched_observer=obs, matching_mode=MatchingSearchMode.first_find, return_only_address=False)
    c.add_observer(RemoveEmptyInstructions())
    ObjdumpParserManual().parse(text, c)
    c.finalize()
    return obs.stringified_instructions


def run_consumer(regex_rule, instrs, all_matches=True, only_addr=False):
    """Feed Instruction objects to the real CompleteConsumer with a compiled rule. -> (matched, hits, stream)"""
    from jasm.global_definitions import Instruction, MatchingSearchMode
    from jasm.consumer import CompleteConsumer
    from jasm.matched_observers import MatchedObserver
    from jasm.stringify_asm.implementations.observers import RemoveEmptyInstructions

    obs = MatchedObserver()
    c = CompleteConsumer(
        regex_rule=regex_rule,
        matched_observer=obs,
        matching_mode=MatchingSearchMode.all_finds if all_matches else MatchingSearchMode.first_find,
        return_only_address=only_addr,
    )
    c.add_observer(RemoveEmptyInstructions())
    for a, m, ops in instrs:
        c.consume_instruction(Instruction(addr=a, mnemonic=m, operands=list(ops)))
    c.finalize()
    return obs.matched, list(obs.addr_list), obs.stringified_instructions


def run_pipeline(doc, listing_text, macros_docs=None, all_matches=True, only_addr=False, ret="list", binary=False):
    """End to end through MasterOfPuppets(MatchConfig).perform_matching() on files in a scratch dir."""
    from jasm.global_definitions import InputFileType, MatchConfig, MatchingReturnMode, MatchingSearchMode
    from jasm.match import MasterOfPuppets

    with scratch() as d:
        p = os.path.join(d, "rule.yaml")
        with open(p, "w") as f:
            yaml.safe_dump(doc, f, sort_keys=False)
        a = os.path.join(d, "in.s")
        with open(a, "w") as f:
            f.write(listing_text)
        mpaths = None
        if macros_docs:
            mpaths = []
            for i, m in enumerate(macros_docs):
                mp = os.path.join(d, f"macros{i}.yaml")
                with open(mp, "w") as f:
                    yaml.safe_dump(m, f, sort_keys=False)
                mpaths.append(mp)
        cfg = MatchConfig(
            pattern_pathstr=p,
            input_file=a,
            input_file_type=InputFileType.binary if binary else InputFileType.assembly,
            return_only_address=only_addr,
            return_mode={"list": MatchingReturnMode.matched_addrs_list, "bool": MatchingReturnMode.bool, "stream": MatchingReturnMode.all_instructions_string}[ret],
            matching_mode=MatchingSearchMode.all_finds if all_matches else MatchingSearchMode.first_find,
            macros=mpaths,
        )
        return MasterOfPuppets(cfg).perform_matching()


def file_route_stream(listing, doc=None):
    """listing (str or bytes, written verbatim) -> the instruction stream MasterOfPuppets hands to the matcher, through the
    WHOLE file route (NullDisassembler, ComposableProducer, parser, observers, consumer) - not only the parser."""
    from jasm.global_definitions import InputFileType, MatchConfig, MatchingReturnMode, MatchingSearchMode
    from jasm.match import MasterOfPuppets

    with scratch() as d:
        p = os.path.join(d, "rule.yaml")
        with open(p, "w") as f:
            yaml.safe_dump(doc or {"pattern": ["zzzz"]}, f, sort_keys=False)
        a = os.path.join(d, "in.s")
        with open(a, "wb") as f:
            f.write(listing if isinstance(listing, bytes) else listing.encode("utf-8"))
        cfg = MatchConfig(pattern_pathstr=p, input_file=a, input_file_type=InputFileType.assembly,
                          return_mode=MatchingReturnMode.all_instructions_string, matching_mode=MatchingSearchMode.all_finds)
        return MasterOfPuppets(cfg).perform_matching()


def rewritten_input_results(doc, listing1, listing2):
    """Match listing1 stored at path P, then REWRITE P in place with listing2 (same length, same mtime) and match again, in this
    process. -> [(addresses, stream) for the first run, the same for the second run]"""
    from jasm.global_definitions import InputFileType, MatchConfig, MatchingReturnMode, MatchingSearchMode
    from jasm.match import MasterOfPuppets

    assert len(listing1) == len(listing2)
    out = []
    with scratch() as d:
        p = os.path.join(d, "rule.yaml")
        with open(p, "w") as f:
            yaml.safe_dump(doc, f, sort_keys=False)
        a = os.path.join(d, "in.s")
        st = None
        for text in (listing1, listing2):
            with open(a, "w") as f:
                f.write(text)
            if st is not None:
                os.utime(a, (st.st_atime, st.st_mtime))
            st = os.stat(a)
            res = []
            for mode in (MatchingReturnMode.matched_addrs_list, MatchingReturnMode.all_instructions_string):
                cfg = MatchConfig(pattern_pathstr=p, input_file=a, input_file_type=InputFileType.assembly, return_only_address=True,
                                  return_mode=mode, matching_mode=MatchingSearchMode.all_finds)
                res.append(MasterOfPuppets(cfg).perform_matching())
            out.append(tuple(res))
    return out


def stream_sequence(steps):
    """steps = [(rule doc, listing text)]: every step is one complete operation (a new MasterOfPuppets) in THIS process; the
    listing lives at ONE path, which is rewritten in place (mtime preserved) when a step's text differs from what is stored.
    -> the instruction stream of every step"""
    from jasm.global_definitions import InputFileType, MatchConfig, MatchingReturnMode, MatchingSearchMode
    from jasm.match import MasterOfPuppets

    out = []
    with scratch() as d:
        a = os.path.join(d, "in.s")
        stored, st = None, None
        for k, (doc, text) in enumerate(steps):
            p = os.path.join(d, f"rule{k}.yaml")
            with open(p, "w") as f:
                yaml.safe_dump(doc, f, sort_keys=False)
            if text != stored:
                with open(a, "w") as f:
                    f.write(text)
                if st is not None:
                    os.utime(a, (st.st_atime, st.st_mtime))
                st, stored = os.stat(a), text
            cfg = MatchConfig(pattern_pathstr=p, input_file=a, input_file_type=InputFileType.assembly,
                              return_mode=MatchingReturnMode.all_instructions_string, matching_mode=MatchingSearchMode.all_finds)
            try:
                out.append(MasterOfPuppets(cfg).perform_matching())
            except Exception as e:
                out.append(f"<raised {type(e).__name__}: {e}>")
    return out


def constructed_first_results(docs, listing_text, ret="list"):
    """All MasterOfPuppets objects are CONSTRUCTED first (rule files read, rules compiled or not - that is the object's
    business), only then each is run, in order; the first object is finally run a second time.
    -> [result per object ..., result of the first object's second run]"""
    from jasm.global_definitions import InputFileType, MatchConfig, MatchingReturnMode, MatchingSearchMode
    from jasm.match import MasterOfPuppets

    with scratch() as d:
        a = os.path.join(d, "in.s")
        with open(a, "w") as f:
            f.write(listing_text)
        objs = []
        for k, doc in enumerate(docs):
            p = os.path.join(d, f"rule{k}.yaml")
            with open(p, "w") as f:
                yaml.safe_dump(doc, f, sort_keys=False)
            objs.append(MasterOfPuppets(MatchConfig(pattern_pathstr=p, input_file=a, input_file_type=InputFileType.assembly, return_only_address=True,
                                                    return_mode={"list": MatchingReturnMode.matched_addrs_list, "stream": MatchingReturnMode.all_instructions_string}[ret], matching_mode=MatchingSearchMode.all_finds)))
        out = [o.perform_matching() for o in objs]
        out.append(objs[0].perform_matching())
        return out


def decode_stream(s):
    """WF stream text -> [(addr, mnem, [ops])]  (the decoder C10 says exists)"""
    out = []
    for rec in s.split("|"):
        if rec == "":
            continue
        addr, rest = rec.split("::", 1)
        fields = rest.split(",")
        assert fields[-1] == "", rec
        out.append((addr, fields[0], fields[1:-1]))
    return out


def encode_stream(instrs):
    return "".join(f"{a}::{m},{','.join(ops)},|" for a, m, ops in instrs)
