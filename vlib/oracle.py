"""Concrete reference interpreter of the pattern DSL over instruction lists.

Independent of both the RX translator and the Spec language builder (shares only
`split_times` and the register table, which are data, with spec.py).  Used for replay:
a solver witness is only reported when the REAL code's verdict on it differs from this
interpreter's verdict.

instrs: list of (addr, mnemonic, [operands]) with an operand-less instruction written
as one empty operand [""] (as in the stream).
"""
import itertools

from .spec import OPERATORS, REG_FAMILIES, reg_family, split_times, split_width_suffix


class Oracle:
    def __init__(self, mnem_full=False, ops_full=False):
        self.mnem_full, self.ops_full = mnem_full, ops_full

    def _name(self, name, text, full):
        name = str(name)
        if name == "@any":
            return text != ""
        return name == text if full else name in text

    # ---- captures
    def _capture_operand(self, name, text, env):
        fam = reg_family(name)
        if fam is not None:
            base, suffix = split_width_suffix(name)
            cands = [env[base]] if base in env else list(REG_FAMILIES[fam])
            for k in cands:
                table = REG_FAMILIES[fam][k]
                names = [table[suffix]] if suffix in table else (sorted(set(table.values())) if suffix is None else [])
                if text in ["%" + n for n in names]:
                    e = dict(env)
                    e[base] = k
                    yield e
            return
        if name in env:
            if env[name] == text:
                yield env
        elif text != "":
            e = dict(env)
            e[name] = text
            yield e

    # ---- deref
    def _deref_alts(self, v, kind, env):
        if isinstance(v, list):
            v = v[0]
        if isinstance(v, dict):
            name, body, _ = split_times(v)
            assert name == "$or"
            for x in body:
                yield from self._deref_alts(x, kind, env)
            return
        v = str(v)
        if kind == "reg":
            yield v if v.startswith("%") else "%" + v
        else:
            yield v
            if not (v.startswith("0x") or v.startswith("-")):
                yield "0x" + v

    def _deref(self, body, text, env):
        """-> list of environments under which the operand text is the memory reference `body` describes (fields may
        define or use captures: the component text then goes through the capture rules)"""
        b, c, k = body.get("register_multiplier"), body.get("constant_multiplier"), body.get("constant_offset")
        if b is None and c is not None:
            return []
        if not (text.startswith("[") and text.endswith("]")):
            return []
        parts = text[1:-1].split("+")
        if len(parts) != 1 + (b is not None) + (k is not None):
            return []
        comps = [(body["main_reg"], "reg", parts[0])]
        if b is not None:
            if c is not None:
                if parts[1].count("*") != 1:
                    return []
                x, y = parts[1].split("*")
                comps += [(b, "reg", x), (c, "const", y)]
            else:
                if "*" in parts[1]:
                    return []
                comps.append((b, "reg", parts[1]))
        if k is not None:
            comps.append((k, "const", parts[-1]))
        envs = [env]
        for field, kind, comp in comps:
            nxt = []
            for e in envs:
                f = field[0] if isinstance(field, list) else field
                if isinstance(f, str) and f.startswith("&"):
                    nxt.extend(self._capture_operand(f, comp, e))
                elif comp in list(self._deref_alts(field, kind, e)):
                    nxt.append(e)
            envs = nxt
        return envs

    # ---- operand level: yields (next_index, env)
    def opl(self, node, ops, j, env):
        if isinstance(node, (str, int)) and not isinstance(node, bool):
            if j >= len(ops):
                return
            s = str(node)
            if s.startswith("&"):
                for e in self._capture_operand(s, ops[j], env):
                    yield j + 1, e
            elif self._name(s, ops[j], self.ops_full):
                yield j + 1, env
            return
        name, body, times = split_times(node)
        if times is not None and name == "$not":
            # repeated operand-level $not: lo..hi consecutive operands none of which the argument matches
            lo, hi = times
            k, jj = 0, j
            if lo == 0:
                yield j, env
            while k < hi:
                nxt = [nj for nj, _ in self.opl({name: body}, ops, jj, env)]
                if not nxt:
                    break
                jj, k = nxt[0], k + 1
                if k >= lo:
                    yield jj, env
            return
        if name == "$or":
            for x in body:
                yield from self.opl(x, ops, j, env)
        elif name == "$and":
            yield from self.opseq(body, ops, j, env)
        elif name == "$and_any_order":
            for p in itertools.permutations(body):
                yield from self.opseq(list(p), ops, j, env)
        elif name == "$not":
            if j < len(ops) and not any(True for nj, _ in self.opl(body[0], ops, j, env) if nj == j + 1):
                yield j + 1, env
        elif name == "$deref":
            if j < len(ops):
                for e in self._deref(body, ops[j], env):
                    yield j + 1, e
        else:
            raise ValueError(node)

    def opseq(self, nodes, ops, j, env):
        if not nodes:
            yield j, env
            return
        for nj, e in self.opl(nodes[0], ops, j, env):
            yield from self.opseq(nodes[1:], ops, nj, e)

    # ---- instruction level: yields (next_index, env)
    def ins(self, node, L, i, env):
        if isinstance(node, (str, int)) and not isinstance(node, bool):
            s = str(node)
            if i >= len(L):
                return
            if s.startswith("&"):
                text = L[i][1] + "," + ",".join(L[i][2])
                if s in env:
                    if env[s] == text:
                        yield i + 1, env
                else:
                    e = dict(env)
                    e[s] = text
                    yield i + 1, e
                return
            if self._name(s, L[i][1], self.mnem_full):
                yield i + 1, env
            return
        name, body, times = split_times(node)
        if times is not None:
            lo, hi = times
            one = {name: body} if body is not None else name
            yield from self._rep(one, lo, hi, L, i, env)
            return
        if name == "$and":
            yield from self.seq(body, L, i, env)
        elif name == "$or":
            for x in body:
                yield from self.ins(x, L, i, env)
        elif name == "$and_any_order":
            for p in itertools.permutations(body):
                yield from self.seq(list(p), L, i, env)
        elif name == "$not":
            if i < len(L) and not any(True for _ in self.ins(body[0], L, i, env)):
                yield i + 1, env
        elif name.startswith("$"):
            raise ValueError(node)
        else:
            if i < len(L) and self._name(name, L[i][1], self.mnem_full):
                if not body:
                    yield i + 1, env
                else:
                    seen = []
                    for _, e in self.opseq(body, L[i][2], 0, env):
                        if e not in seen:
                            seen.append(e)
                            yield i + 1, e

    def _rep(self, one, lo, hi, L, i, env, depth=0):
        if depth >= lo:
            yield i, env
        if depth < hi:
            for ni, e in self.ins(one, L, i, env):
                if ni == i and depth >= lo:
                    continue
                yield from self._rep(one, lo, hi, L, ni, e, depth + 1)

    def seq(self, nodes, L, i, env):
        if not nodes:
            yield i, env
            return
        for ni, e in self.ins(nodes[0], L, i, env):
            yield from self.seq(nodes[1:], L, ni, e)

    # ---- public
    def ends(self, pattern, L, i):
        """set of end indices of matches of the whole pattern starting at instruction i"""
        return {ni for ni, _ in self.seq(pattern, L, i, {})}

    def found(self, pattern, L):
        return any(self.ends(pattern, L, i) for i in range(len(L) + 1))

    def starts(self, pattern, L):
        return [i for i in range(len(L) + 1) if self.ends(pattern, L, i)]
