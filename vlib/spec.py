"""Reference semantics of the JASM pattern DSL as regular languages over the stream grammar WF.

Written from the property statements (properties.jsonl C01-C07, C10), NOT from JASM's
source: it never imports anything from /repo and shares with the RX translator only the
alphabet/colour primitives of rx.World.

Stream grammar (what C10 asserts the parser/consumer produce):
    WF    = REC*
    REC   = ADDR "::" MNEM "," (FIELD ",")+ "|"
    ADDR  = [0-9a-f]+
    FIELD = ([!-~] minus , |)*  with no "::" inside
    MNEM  = non-empty FIELD not starting with ':'

A pattern node denotes, for a continuation language K, the set  {match text}·K  (continuation
passing, so that `$not` can look past the instruction it consumes).
"""
import itertools

import z3

from . import rx
from .rx import EPS, comp, concat, inter, loop, union

FIELD_CODES = tuple(c for c in range(0x21, 0x7F) if chr(c) not in ",|")
HEX_CODES = tuple(ord(c) for c in "0123456789abcdef")

OPERATORS = ("$and", "$or", "$not", "$and_any_order")

# architectural register tables for the register-family captures (C05), from the README's
# description of &genreg/&indreg/&stackreg/&basereg and the x86-64 register file.
REG_FAMILIES = {
    "genreg": {
        k: {"64": f"r{k}x", "32": f"e{k}x", "16": f"{k}x", "8h": f"{k}h", "8l": f"{k}l"} for k in "abcd"
    },
    "indreg": {k: {"64": f"r{k}i", "32": f"e{k}i", "16": f"{k}i", "8l": f"{k}il"} for k in "sd"},
    "stackreg": {"sp": {"64": "rsp", "32": "esp", "16": "sp", "8l": "spl"}},
    "basereg": {"bp": {"64": "rbp", "32": "ebp", "16": "bp", "8l": "bpl"}},
}


def reg_family(name):
    """'&genreg-1.16' -> 'genreg'; None for ordinary captures"""
    for fam in REG_FAMILIES:
        if str(name).startswith("&" + fam):
            return fam
    return None


WIDTH_SUFFIXES = ("64", "32", "16", "8h", "8l")


def split_width_suffix(name):
    """'&genreg.src.64' -> ('&genreg.src', '64'); only the LAST dot-separated part can be a width suffix"""
    head, dot, last = str(name).rpartition(".")
    if dot and last.lower() in WIDTH_SUFFIXES:
        return head, last.lower()
    return str(name), None


X86_REGS = sorted(
    {r for fam in REG_FAMILIES.values() for t in fam.values() for r in t.values()}
    | {f"r{i}{s}" for i in range(8, 16) for s in ("", "d", "w", "b")}
)


class SpecError(Exception):
    pass


def split_times(node):
    """-> (name, body, (lo, hi) or None) for a dict node, in either YAML spelling."""
    assert isinstance(node, dict)
    keys = list(node.keys())
    name = keys[0]
    body = node[name]
    times = None
    if "times" in node and name != "times":
        times = node["times"]
    elif isinstance(body, dict) and "times" in body:
        times = body["times"]
        body = {k: v for k, v in body.items() if k != "times"} or None
    if times is None:
        return name, body, None
    if isinstance(times, int):
        return name, body, (times, times)
    return name, body, (times.get("min", 1), times.get("max", 1))


def capture_names(node):
    """capture names (&...) used anywhere in a pattern node, in order of first use"""
    out = []

    def walk(x):
        if isinstance(x, str):
            if x.startswith("&") and x not in out:
                out.append(x)
        elif isinstance(x, dict):
            for k, v in x.items():
                walk(k)
                walk(v)
        elif isinstance(x, (list, tuple)):
            for y in x:
                walk(y)

    walk(node)
    return out


class Spec:
    def __init__(self, world, mnem_full=False, ops_full=False, env=None, local_dom=None):
        self.w = world
        self.mnem_full = mnem_full
        self.ops_full = ops_full
        self.env = env or {}  # capture name -> bound text (C05)
        self.local_dom = local_dom or {}  # captures first used inside a $not argument: name -> values (local to the argument)

    # ---------------------------------------------------------------- grammar
    def HEX(self, C):
        return self.w.chars(HEX_CODES, C)

    def FCH(self, C):
        return self.w.chars(FIELD_CODES, C)

    def FIELD(self, C):
        cc = self.w.lit("::", C)
        return inter(z3.Star(self.FCH(C)), comp(z3.Concat(self.w.ANY, cc, self.w.ANY)))

    def NEFIELD(self, C):
        return inter(self.FIELD(C), z3.Concat(self.FCH(C), self.w.ANY))

    def MNEM(self, C):
        nocolon = self.w.chars([c for c in FIELD_CODES if c != ord(":")], C)
        return inter(self.FIELD(C), z3.Concat(nocolon, self.w.ANY))

    def COMMA(self, C):
        return self.w.lit(",", C)

    def BAR(self, C):
        return self.w.lit("|", C)

    def REC(self, C):
        return concat(
            [
                z3.Plus(self.HEX(C)),
                self.w.lit("::", C),
                self.MNEM(C),
                self.COMMA(C),
                z3.Plus(z3.Concat(self.FIELD(C), self.COMMA(C))),
                self.BAR(C),
            ]
        )

    def WF(self, C):
        return z3.Star(self.REC(C))

    # ---------------------------------------------------------------- fields
    def named_field(self, name, full, C, base=None):
        name = str(name)
        base = base if base is not None else self.FIELD(C)
        if name == "@any":
            # the shipped wildcard: "any mnemonic or any operand" = one non-empty field
            return self.NEFIELD(C)
        if full:
            return self.w.lit(name, C)
        return inter(base, concat([self.w.ANY, self.w.lit(name, C), self.w.ANY]))

    # operand level: language over (FIELD ",")* sequences -----------------
    def opl(self, node, C):
        F, CM = self.FIELD(C), self.COMMA(C)
        if isinstance(node, (str, int)) and not isinstance(node, bool):
            s = str(node)
            if s.startswith("&"):
                return z3.Concat(self.capture_operand(s, C), CM)
            return z3.Concat(self.named_field(s, self.ops_full, C), CM)
        if isinstance(node, dict):
            name, body, times = split_times(node)
            if times is not None:
                if name != "$not":
                    raise SpecError("times on an operand-level node other than $not is not given a meaning by the properties")
                # a repeated operand-level $not: that many consecutive operands, each of which the argument does not match
                one = self.opl({name: body}, C)
                return z3.Loop(one, times[0], times[1]) if times[1] > 0 else rx.EPS
            if name == "$or":
                return union(self.opl(x, C) for x in body)
            if name == "$and":
                return concat(self.opl(x, C) for x in body)
            if name == "$and_any_order":
                return union(concat(self.opl(x, C) for x in p) for p in itertools.permutations(body))
            if name == "$not":
                if len(body) != 1:
                    raise SpecError("$not arity")
                return inter(z3.Concat(F, CM), comp(self.opl(body[0], C)))
            if name == "$deref":
                return z3.Concat(self.deref_field(body, C), CM)
        raise SpecError(f"operand node {node!r}")

    # ---------------------------------------------------------------- captures (C05)
    def capture_operand(self, name, C):
        fam = reg_family(name)
        if fam is not None:
            base, suffix = split_width_suffix(name)
            key = self.env.get(base)
            if key is None:
                raise SpecError(f"unbound capture {name}")
            table = REG_FAMILIES[fam].get(key)
            if table is None:
                return rx.EMPTY
            if suffix is None:
                # no width requested: any width of that architectural register
                return union(self.w.lit("%" + r, C) for r in sorted(set(table.values())))
            if suffix not in table:
                return rx.EMPTY
            return self.w.lit("%" + table[suffix], C)
        v = self.env.get(name)
        if v is None:
            raise SpecError(f"unbound capture {name}")
        if v == "" or "," in v or "|" in v:
            return rx.EMPTY  # "the first occurrence may bind any NON-EMPTY instruction/operand": one operand, not two
        return self.w.lit(v, C)

    # ---------------------------------------------------------------- deref (C06)
    def _reg_alts(self, r, C):
        r = str(r)
        if r.startswith("&"):
            return self.capture_operand(r, C)
        if r.startswith("%"):
            return self.w.lit(r, C)
        return z3.Concat(self.w.lit("%", C), self.w.lit(r, C))

    def _const_alts(self, k, C):
        k = str(k)
        if k.startswith("&"):
            return self.capture_operand(k, C)
        if k.startswith("0x") or k.startswith("-"):
            return self.w.lit(k, C)
        # "constants optionally [written] without 0x"
        return union([self.w.lit(k, C), self.w.lit("0x" + k, C)])

    def _deref_part(self, v, kind, C):
        if isinstance(v, list):
            if len(v) != 1:
                raise SpecError("deref field list must have one element")
            v = v[0]
        if isinstance(v, dict):
            name, body, times = split_times(v)
            if name == "$or":
                return union(self._deref_part(x, kind, C) for x in body)
            raise SpecError(f"deref field operator {name}")
        return self._reg_alts(v, C) if kind == "reg" else self._const_alts(v, C)

    def deref_field(self, body, C):
        """[a+b*c+k] with exactly the present components"""
        L = lambda t: self.w.lit(t, C)
        if "main_reg" not in body:
            raise SpecError("$deref without main_reg")
        parts = [L("["), self._deref_part(body["main_reg"], "reg", C)]
        b, c, k = body.get("register_multiplier"), body.get("constant_multiplier"), body.get("constant_offset")
        if b is None and c is not None:
            # a scale without an index register: no AT&T operand has exactly these components
            return rx.EMPTY
        if b is not None and c is None:
            # 16-bit addressing prints base and index without a scale: k(%bx,%si) -> [a+b+k]
            parts += [L("+"), self._deref_part(b, "reg", C)]
        elif b is not None:
            parts += [L("+"), self._deref_part(b, "reg", C), L("*"), self._deref_part(c, "const", C)]
        if k is not None:
            parts += [L("+"), self._deref_part(k, "const", C)]
        parts.append(L("]"))
        return concat(parts)

    # ---------------------------------------------------------------- instruction level
    def item(self, mnem, ops, C):
        F, CM = self.FIELD(C), self.COMMA(C)
        parts = [z3.Plus(self.HEX(C)), self.w.lit("::", C), self.named_field(mnem, self.mnem_full, C), CM]
        if ops:
            parts += [self.opl(o, C) for o in ops]
            parts.append(z3.Star(z3.Concat(F, CM)))
        else:
            parts.append(z3.Plus(z3.Concat(F, CM)))
        parts.append(self.BAR(C))
        return concat(parts)

    def captured_instruction(self, name, C):
        v = self.env.get(name)
        if v is None:
            raise SpecError(f"unbound capture {name}")
        if v == "" or "|" in v:
            return rx.EMPTY  # a binding is ONE non-empty instruction: text that spans two records is never a binding
        return concat([z3.Plus(self.HEX(C)), self.w.lit("::", C), self.w.lit(v, C), self.w.lit(",|", C)])

    def has_not(self, node):
        if isinstance(node, dict):
            name, body, _ = split_times(node)
            if name == "$not":
                return True
            if name in OPERATORS:
                return any(self.has_not(x) for x in body)
        return False

    def ins(self, node, K, C):
        """{texts matched by node, coloured C} . K"""
        A = self.w.colours
        if isinstance(node, (str, int)) and not isinstance(node, bool):
            s = str(node)
            if s.startswith("&"):
                return z3.Concat(self.captured_instruction(s, C), K)
            return z3.Concat(self.item(s, None, C), K)
        if not isinstance(node, dict):
            raise SpecError(f"instruction node {node!r}")
        name, body, times = split_times(node)
        if times is not None:
            lo, hi = times
            one = {name: body} if body is not None else name
            if not self.has_not(one):
                return z3.Concat(loop(self.ins(one, EPS, C), lo, hi), K)
            r = K
            for _ in range(hi - lo):
                r = z3.Union(K, self.ins(one, r, C))
            for _ in range(lo):
                r = self.ins(one, r, C)
            return r
        if name == "$and":
            return self.seq(body, K, C)
        if name == "$or":
            return union(self.ins(x, K, C) for x in body)
        if name == "$and_any_order":
            return union(self.seq(list(p), K, C) for p in itertools.permutations(body))
        if name == "$not":
            if len(body) != 1:
                raise SpecError("$not arity")
            loc = [n for n in capture_names(body[0]) if n not in self.env and n in self.local_dom]
            if loc:
                # captures first used inside the argument are local to it: X fails = it fails under every binding
                r = z3.Concat(self.REC(C), K)
                saved = self.env
                for vals in itertools.product(*[self.local_dom[n] for n in loc]):
                    self.env = dict(saved, **dict(zip(loc, vals)))
                    try:
                        r = inter(r, comp(self.ins(body[0], self.w.ANY, A)))
                    finally:
                        self.env = saved
                return r
            return inter(z3.Concat(self.REC(C), K), comp(self.ins(body[0], self.w.ANY, A)))
        if name.startswith("$"):
            raise SpecError(f"operator {name}")
        return z3.Concat(self.item(name, body, C), K)

    def seq(self, nodes, K, C):
        r = K
        for x in reversed(nodes):
            r = self.ins(x, r, C)
        return r
