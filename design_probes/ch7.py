from typing import List, Optional, Dict, Any
from jasm.global_definitions import JASMConfig, PartialMatchingConfig, DisassStyle, ValidAddrRange

def _fresh():
    JASMConfig._instance = None
    return JASMConfig()

def _snapshot(c):
    g = dict(c.global_info)
    v = g.get("valid_addr_range")
    g["valid_addr_range"] = None if v is None else (v.min.hex, v.max.hex)
    return g

def step_independent(pm: bool, po: bool, p_style_intel: bool, p_range: bool, p_sections: List[str],
                     has_m: bool, m: bool, has_o: bool, o: bool, style_sel: int, has_range: bool, has_sections: bool, sections: List[str]) -> bool:
    """
    pre: len(p_sections) <= 2 and len(sections) <= 2 and 0 <= style_sel <= 2
    post: _
    """
    cfg: Dict[str, Any] = {}
    if has_m: cfg["mnemonics-full-match"] = m
    if has_o: cfg["operands-full-match"] = o
    if style_sel == 1: cfg["style"] = "att"
    if style_sel == 2: cfg["style"] = "intel"
    if has_range: cfg["valid_addr_range"] = {"min": "0x10", "max": "20"}
    if has_sections: cfg["sections"] = sections
    # arbitrary pre-state (what any earlier history may have left)
    c = _fresh()
    c.global_info[PartialMatchingConfig.MnemonicsFullMatch] = pm
    c.global_info[PartialMatchingConfig.OperandsFullMatch] = po
    c.global_info["assembly_style"] = DisassStyle.intel if p_style_intel else DisassStyle.att
    c.global_info["valid_addr_range"] = ValidAddrRange("1", "2") if p_range else None
    c.global_info["sections"] = p_sections
    c.load_config(cfg)
    after_history = _snapshot(c)
    f = _fresh()
    f.load_config(cfg)
    return after_history == _snapshot(f)
