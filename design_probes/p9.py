exec(open('p5.py').read().split("notmov=")[0])
import copy
def subst(n, g):
    k=n[0]
    if k=='cap': return ('grp', ('cat',[('lit',c) for c in g[n[1]]])), 
    return n
def expand(n,g,Gre):
    k=n[0]
    if k=='cap':
        # literal g if g in L(X)
        Gre.append((n[1], n[2]))
        return ('cat',[('lit',c) for c in g[n[1]-1]])
    if k=='bref': return ('cat',[('lit',c) for c in g[n[1]-1]])
    if k in('lit','cls'): return n
    if k=='cat': return ('cat',[expand(x,g,Gre) for x in n[1]])
    if k=='alt': return ('alt',[expand(x,g,Gre) for x in n[1]])
    if k=='grp': return ('grp',expand(n[1],g,Gre))
    if k=='nla': return ('nla',expand(n[1],g,Gre))
    if k=='rep': return ('rep',expand(n[1],g,Gre),n[2],n[3])
doc={'pattern':[{'mov':['&x']},{'add':['&x','&y']},{'sub':['&y']}]}
rx=compile_rule(doc); print(rx)
ast,ng=parse(rx)
def eqfield(x): return z3.Re(x)
def itemeq(m,ops):
    parts=[ADDR,z3.Re('::'), contains(m), z3.Re(',')]
    for o in ops: parts+= [z3.Re(o), z3.Re(',')]
    parts+=[z3.Star(z3.Concat(FIELD,z3.Re(','))), z3.Re('|')]
    return z3.Concat(*parts)
import itertools
D=['a','ab','0x1','0x10','%r8','%r8d']
t0=time.time(); n=0
for g in itertools.product(D,repeat=2):
    Gre=[]; e=expand(ast,list(g),Gre)
    L=cps(e,ANY,1000)
    spec=z3.Concat(itemeq('mov',[g[0]]),itemeq('add',[g[0],g[1]]),itemeq('sub',[g[1]]),WF)
    for nm,r in [('J-S',z3.Intersect(WF,L,z3.Complement(spec))),('S-J',z3.Intersect(WF,spec,z3.Complement(L)))]:
        sol=z3.Solver(); sol.set('timeout',30000); sol.add(z3.InRe(s,r)); res=sol.check(); n+=1
        if str(res)!='unsat' and n<8: print(g,nm,res, sol.model()[s] if str(res)=='sat' else '')
print(n,'queries %.1fs'%(time.time()-t0))
