import tempfile, os, yaml, sys
from jasm.global_definitions import *
from jasm.match import MasterOfPuppets
def line(addr, mn, ops=""):
    return f"    {addr}:\t48 89 e5             \t{mn}" + (f"    {ops}" if ops else "")
def run(doc, lines, mode=MatchingSearchMode.all_finds, ret=MatchingReturnMode.matched_addrs_list, only=False, macros=None):
    with tempfile.TemporaryDirectory() as d:
        p=os.path.join(d,'r.yaml'); open(p,'w').write(yaml.safe_dump(doc))
        a=os.path.join(d,'a.s'); open(a,'w').write("\n".join(lines)+"\n")
        try:
            return MasterOfPuppets(MatchConfig(pattern_pathstr=p,input_file=a,return_mode=ret,matching_mode=mode,return_only_address=only,macros=macros)).perform_matching()
        except Exception as e:
            return f"EXC {type(e).__name__}: {e}"
L=[line('10','mov','%rax,%rbx'), line('13','call','401000 <foo>'), line('18','ret')]
print('stream', run({'pattern':['mov']}, L, ret=MatchingReturnMode.all_instructions_string))
print('1 leading not', run({'pattern':[{'$not':['mov']}, 'call']}, L))
print('2 and times', run({'pattern':[{'$and':['mov','call'],'times':1}, 'ret']}, L), run({'pattern':[{'$and':['mov','call'],'times':{'min':1,'max':2}}, 'ret']}, L), run({'pattern':[{'$and':['mov','call'],'times':{'min':1,'max':2}}]}, L))
print('3 operand not', run({'pattern':[{'mov':[{'$not':['rax']}]}]}, L), run({'pattern':[{'ret':[{'$not':['rax']}]}]}, L))
print('4 any', run({'pattern':[{'call':['@any','@any']}]}, L, macros=['/repo/tests/macros/jasm_macros.yaml']))
L2=[line('10','mov','%ah,%bl'), line('13','mov','$0xa,%bl')]
print('5 ah', run({'pattern':[{'mov':['ah']}]}, L2))
L3=[line('10','mov','$0x1,%rax'), line('13','add','$0x10,%rbx')]
print('6 cap prefix', run({'pattern':[{'mov':['&x']},{'add':['&x']}]}, L3))
L4=[line('10','mov','%eax,%ebx'), line('13','add','%rax,%rbx')]
print('7 genreg width', run({'pattern':[{'mov':['&genreg.64']}]}, L4), run({'pattern':[{'mov':['&genreg.64']},{'add':['&genreg.32']}]}, L4), run({'pattern':[{'mov':['&genreg.64']},{'add':['&genreg.8H']}]}, L4))
print('8 neg times', run({'pattern':[{'mov':{'times':-1}}]}, L), run({'pattern':[{'mov':{'times':{'min':2,'max':1}}}]}, L), run({'pattern':[{'mov':{'times':{'min':-1,'max':1}}}]}, L))
print('9 deref dict or', run({'pattern':[{'mov':[{'$deref':{'main_reg':{'$or':['rax','rbx']}}}]}]}, [line('10','mov','(%rax),%rbx')]), run({'pattern':[{'mov':[{'$deref':{'main_reg':[{'$or':['rax','rbx']}]}}]}]}, [line('10','mov','(%rax),%rbx')]))
print('10 deref 0', run({'pattern':[{'mov':[{'$deref':{'main_reg':'rax','constant_offset':0}}]}]}, [line('10','mov','0(%rax),%rbx'), line('11','mov','0x0(%rax),%rbx')]), run({'pattern':[{'mov':[{'$deref':{'main_reg':'rax','constant_offset':'0x0'}}]}]}, [line('11','mov','0x0(%rax),%rbx')]))
print('11 empty', run({'pattern':[]}, L), run({}, L), run({'pattern':[{'$or':[]}]}, L), run({'pattern':[{'$not':['a','b']}]}, L), run({'pattern':[{'mov':[{'$deref':{'constant_offset':'1'}}]}]}, L))
print('12 undefined macro', run({'pattern':['@foo']}, L), run({'macros':[{'name':'@a','pattern':'mov'}],'pattern':['@a',{'@foo':{'times':1}}]}, L))
print('13 config wrong', run({'config':{'mnemonics-full-match':'yes'},'pattern':['mov']}, L), run({'config':{'sections':'.text'},'pattern':['mov']}, L), run({'config':{'style':'bogus'},'pattern':['mov']}, L), run({'config':[1],'pattern':['mov']}, L), run({'pattern':'mov'}, L), run({'pattern':{'mov':['a']}}, L))
print('14 missing file', run({'pattern':['mov']}, L) if False else '')
