import sys, tempfile, os, yaml
from jasm.jasm_regex.yaml2regex import Yaml2Regex
def compile_rule(doc, macros=None):
    with tempfile.NamedTemporaryFile('w', suffix='.yaml', delete=False) as f:
        yaml.safe_dump(doc, f)
        p=f.name
    try:
        return Yaml2Regex(p, macros_from_terminal=macros).produce_regex()
    finally:
        os.unlink(p)
if __name__=='__main__':
    for doc in [
        {'pattern':['mov']},
        {'pattern':[{'mov':['a','b']}]},
        {'pattern':[{'mov':['a','b']}], 'config':{'mnemonics-full-match':True,'operands-full-match':True}},
        {'pattern':[{'$not':['mov']}, 'call']},
        {'pattern':[{'push':[{'$not':['rex']}]}]},
        {'pattern':[{'mov':{'times':2}}]},
        {'pattern':[{'mov':['a'], 'times':{'min':0,'max':2}}]},
        {'pattern':[{'$and':['a','b'], 'times':2}]},
        {'pattern':[{'$or':['a','b'], 'times':2}]},
        {'pattern':[{'$and_any_order':['a','b'], 'times':2}]},
        {'pattern':[{'$not':['a'], 'times':2}]},
        {'pattern':[{'mov':['&x','&x']}, '&i', '&i']},
        {'pattern':[{'mov':['&genreg.64','&genreg.32']}]},
        {'pattern':[{'mov':[{'$deref':{'main_reg':'%rax','constant_offset':'0x8'}}]}]},
        {'pattern':[{'mov':[{'$deref':{'main_reg':'%rax','constant_offset':'0x8','register_multiplier':'%rbx','constant_multiplier':4}}]}]},
        {'pattern':[{'mov':[{'$deref':{'main_reg':{'$or':['a','b']}}}]}]},
        {'pattern':[{'mov':['ah']}]},
        {'pattern':[{'mov':[{'$or':['a','b']}, 'c']}]},
        {'pattern':[{'mov':[{'$and_any_order':['a','b']}]}]},
    ]:
        try:
            print(doc, '\n   ', compile_rule(doc))
        except Exception as e:
            print(doc, '\n    EXC', type(e).__name__, e)
