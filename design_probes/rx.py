"""Minimal regex parser for the JASM-emitted subset -> AST"""
import z3
class P:
    def __init__(s, t): s.t=t; s.i=0; s.ngroups=0
    def peek(s): return s.t[s.i] if s.i<len(s.t) else None
    def eat(s,c=None):
        ch=s.t[s.i]; 
        if c is not None: assert ch==c,(ch,c,s.i)
        s.i+=1; return ch
    def parse(s):
        r=s.alt(); assert s.i==len(s.t),(s.i,s.t[s.i:]); return r
    def alt(s):
        alts=[s.seq()]
        while s.peek()=='|':
            s.eat(); alts.append(s.seq())
        return alts[0] if len(alts)==1 else ('alt',alts)
    def seq(s):
        items=[]
        while s.peek() is not None and s.peek() not in '|)':
            items.append(s.quant())
        return ('cat',items)
    def quant(s):
        a=s.atom()
        while True:
            c=s.peek()
            if c=='*': s.eat(); a=('rep',a,0,None)
            elif c=='+': s.eat(); a=('rep',a,1,None)
            elif c=='?': s.eat(); a=('rep',a,0,1)
            elif c=='{':
                j=s.t.index('}',s.i); body=s.t[s.i+1:j]
                import re
                m=re.fullmatch(r'(\d+)(?:(,)(\d*))?',body)
                if not m: # literal brace
                    s.eat(); a=('cat',[a,('lit','{')]); continue
                lo=int(m.group(1)); hi=lo if not m.group(2) else (int(m.group(3)) if m.group(3) else None)
                s.i=j+1; a=('rep',a,lo,hi)
            else: break
        return a
    def atom(s):
        c=s.eat()
        if c=='(':
            if s.t.startswith('?:',s.i): s.i+=2; r=s.alt(); s.eat(')'); return ('grp',r)
            if s.t.startswith('?!',s.i): s.i+=2; r=s.alt(); s.eat(')'); return ('nla',r)
            s.ngroups+=1; n=s.ngroups; r=s.alt(); s.eat(')'); return ('cap',n,r)
        if c=='[':
            neg=False
            if s.peek()=='^': neg=True; s.eat()
            items=[]
            first=True
            while s.peek()!=']' or first:
                first=False
                ch=s.eat()
                if ch=='\\':
                    e=s.eat()
                    if e=='d': items.append(('range','0','9'))
                    elif e=='t': items.append(('range','\t','\t'))
                    else: items.append(('range',e,e))
                elif s.peek()=='-' and s.t[s.i+1]!=']':
                    s.eat(); hi=s.eat(); items.append(('range',ch,hi))
                else: items.append(('range',ch,ch))
            s.eat(']')
            return ('cls',neg,items)
        if c=='\\':
            e=s.eat()
            if e.isdigit(): return ('bref',int(e))
            if e=='d': return ('cls',False,[('range','0','9')])
            if e=='t': return ('lit','\t')
            return ('lit',e)
        if c=='.': return ('cls',True,[('range','\n','\n')])
        return ('lit',c)
def parse(t): 
    p=P(t); return p.parse(), p.ngroups

S=z3.StringSort()
ANY=z3.Full(z3.ReSort(S))
def cls_re(neg,items):
    rs=[z3.Range(a,b) for _,a,b in items]
    u=rs[0] if len(rs)==1 else z3.Union(*rs)
    if neg: return z3.Intersect(z3.AllChar(z3.ReSort(S)), z3.Complement(u))
    return u
def has_la(n):
    k=n[0]
    if k in('lit','cls','bref'): return False
    if k=='nla': return True
    if k=='cat': return any(has_la(x) for x in n[1])
    if k=='alt': return any(has_la(x) for x in n[1])
    if k=='grp': return has_la(n[1])
    if k=='cap': return has_la(n[2])
    if k=='rep': return has_la(n[1])
def plain(n, star_cap=None):
    k=n[0]
    if k=='lit': return z3.Re(n[1])
    if k=='cls': return cls_re(n[1],n[2])
    if k=='cat':
        xs=[plain(x,star_cap) for x in n[1]]
        if not xs: return z3.Re("")
        return xs[0] if len(xs)==1 else z3.Concat(*xs)
    if k=='alt': return z3.Union(*[plain(x,star_cap) for x in n[1]])
    if k=='grp': return plain(n[1],star_cap)
    if k=='rep':
        a=plain(n[1],star_cap); lo,hi=n[2],n[3]
        if hi is not None and star_cap is not None and hi>=star_cap: hi=None
        if hi is None:
            if lo==0: return z3.Star(a)
            if lo==1: return z3.Plus(a)
            return z3.Concat(z3.Loop(a,lo,lo), z3.Star(a))
        return z3.Loop(a,lo,hi)
    raise Exception(k)
def cps(n,K,star_cap=None):
    """language of n followed by continuation K (to end of string), lookaheads exact"""
    if not has_la(n): return z3.Concat(plain(n,star_cap),K)
    k=n[0]
    if k=='nla': return z3.Intersect(K, z3.Complement(cps(n[1],ANY,star_cap)))
    if k=='cat':
        r=K
        for x in reversed(n[1]): r=cps(x,r,star_cap)
        return r
    if k=='alt': return z3.Union(*[cps(x,K,star_cap) for x in n[1]])
    if k=='grp': return cps(n[1],K,star_cap)
    if k=='rep':
        lo,hi=n[2],n[3]; assert hi is not None and hi<=12
        # L = A^lo (eps | A (eps | A ...))
        r=K
        for _ in range(hi-lo): r=z3.Union(K,cps(n[1],r,star_cap))
        for _ in range(lo): r=cps(n[1],r,star_cap)
        return r
    raise Exception(k)
