import time, z3, sys
from rx import *
from gen import compile_rule
S=z3.StringSort()
def R(t): return plain(parse(t)[0])
ADDR=R('[0-9a-f]+')
FCH=R('[^,|:]')
FIELD=z3.Star(z3.Union(FCH, z3.Concat(z3.Re(':'),FCH)))  # no '::', cannot end with ':'  (approx)
FIELD=z3.Concat(FIELD, z3.Option(z3.Re(':')))
# simpler: FIELD = no "::" 
MN=z3.Intersect(FIELD, z3.Complement(z3.Re("")))
REC=z3.Concat(ADDR,z3.Re('::'),MN,z3.Re(','),z3.Plus(z3.Concat(FIELD,z3.Re(','))),z3.Re('|'))
WF=z3.Star(REC)
def contains(x): return z3.Intersect(FIELD, z3.Concat(ANY,z3.Re(x),ANY))
def item(m,ops,mf=False,of=False):
    parts=[ADDR,z3.Re('::'), (z3.Re(m) if mf else contains(m)), z3.Re(',')]
    for o in ops: parts+= [(z3.Re(o) if of else contains(o)), z3.Re(',')]
    parts+=[z3.Star(z3.Concat(FIELD,z3.Re(','))), z3.Re('|')]
    return z3.Concat(*parts)
def check(doc, spec, cap=1000):
    rx=compile_rule(doc)
    ast,ng=parse(rx)
    A=cps(ast,ANY,star_cap=cap)
    B=z3.Concat(spec,WF)
    s=z3.String('s')
    for name,q in [('jasm-not-spec',z3.Intersect(WF,A,z3.Complement(B))),('spec-not-jasm',z3.Intersect(WF,B,z3.Complement(A)))]:
        sol=z3.Solver(); sol.set('timeout',120000)
        sol.add(z3.InRe(s,q))
        t=time.time(); r=sol.check(); dt=time.time()-t
        print(name, r, '%.2fs'%dt, sol.model()[s] if r==z3.sat else '')
check({'pattern':['mov']}, item('mov',[]))
check({'pattern':[{'mov':['a','b']}]}, item('mov',['a','b']))
check({'pattern':[{'mov':['a','b']}],'config':{'mnemonics-full-match':True,'operands-full-match':True}}, item('mov',['a','b'],True,True))
check({'pattern':[{'mov':['a','b']}, 'call']}, z3.Concat(item('mov',['a','b']),item('call',[])))
check({'pattern':[{'$not':['mov']}, 'call']}, z3.Concat(z3.Intersect(REC,z3.Complement(item('mov',[]))),item('call',[])))
print('--- mutants (should be sat)')
check({'pattern':[{'mov':['a','b']}]}, item('mov',['b','a']))
check({'pattern':[{'mov':['a','b']}]}, item('mov',['a','b'],False,True))
check({'pattern':[{'mov':['a','b']}, 'call']}, z3.Concat(item('mov',['a','b']),REC,item('call',[])))
s=z3.String('s'); sol=z3.Solver(); sol.add(z3.InRe(s,WF), z3.Length(s)>30); print(sol.check(), sol.model()[s])
