import time, z3
from rx import *
def R(t): return plain(parse(t)[0], 1000)
# regex: hex+::[^,|]*mov[^,|]*,([^,|]+),\1,?[^|]*\|
s=z3.String('s'); g=z3.String('g')
A0=R(r'[\dabcedf]+::[^,|]{0,1000}mov[^,|]{0,1000},'); G=R(r'[^,|]+'); A1=R(','); A2=R(r',?[^|]{0,1000}\|')
Rg=z3.Concat(A0,z3.Re(g),A1,z3.Re(g),A2, ANY)
# structured listing: one record with 2 operands
a=z3.String('a'); m=z3.String('m'); o1=z3.String('o1'); o2=z3.String('o2')
F=R('[^,|]*'); 
def base(sol):
    sol.add(z3.InRe(a,R('[0-9a-f]+')), z3.InRe(m,R('[^,|:]+')), z3.InRe(o1,F), z3.InRe(o2,F))
    for v in (a,m,o1,o2): sol.add(z3.Length(v)<=4)
    sol.add(s==z3.Concat(a,z3.StringVal('::'),m,z3.StringVal(','),o1,z3.StringVal(','),o2,z3.StringVal(',|')))
spec=z3.And(z3.Contains(m,z3.StringVal('mov')), o1==o2, z3.Length(o1)>0)
# Q1: jasm found & not spec
sol=z3.Solver(); sol.set('timeout',60000); base(sol)
sol.add(z3.InRe(g,G), z3.InRe(s,Rg), z3.Not(spec))
t=time.time(); r=sol.check(); print('Q1',r,'%.2f'%(time.time()-t), sol.model() if r==z3.sat else '')
# Q2: spec & not jasm (with g := o1)
sol=z3.Solver(); sol.set('timeout',60000); base(sol)
Rw=z3.Concat(A0,z3.Re(o1),A1,z3.Re(o1),A2, ANY)
sol.add(spec, z3.Not(z3.InRe(s,Rw)))
t=time.time(); r=sol.check(); print('Q2',r,'%.2f'%(time.time()-t), sol.model() if r==z3.sat else '')
# Q1 alt: split encoding
sol=z3.Solver(); sol.set('timeout',60000); base(sol)
x0=z3.String('x0'); x2=z3.String('x2'); x3=z3.String('x3')
sol.add(s==z3.Concat(x0,g,z3.StringVal(','),g,x2,x3), z3.InRe(x0,A0), z3.InRe(g,G), z3.InRe(x2,A2), z3.Not(spec))
t=time.time(); r=sol.check(); print('Q1split',r,'%.2f'%(time.time()-t), sol.model() if r==z3.sat else '')
