import sys, collections
from jasm.stringify_asm.implementations.gnu_objdump.asm_manual_parser_w_regex import parse_line
from jasm.global_definitions import Instruction
for f in sys.argv[1:]:
    exc=collections.Counter(); ex={}; n=0; bad=collections.Counter(); exb={}
    for l in open(f):
        l=l.rstrip('\n'); n+=1
        try:
            r=parse_line(l)
            if isinstance(r,Instruction):
                s=r.stringify()
                flds=[r.mnemonic]+r.operands
                if any((',' in x or '|' in x or '::' in x) for x in flds):
                    k='sep-in-field'; bad[k]+=1; exb.setdefault(k,[]).append((l,s))
        except Exception as e:
            k=type(e).__name__+':'+str(e)[:40]; exc[k]+=1; ex.setdefault(k,l)
    print(f,n,dict(exc)); 
    for k,v in ex.items(): print('   ',k,repr(v))
    print('   bad', dict(bad)); 
    for k,v in exb.items():
        for x in v[:6]: print('      ',x)
