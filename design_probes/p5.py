import time, z3, sys
from rx import *
from gen import compile_rule
def R(t): return plain(parse(t)[0])
HEX=R('[0-9a-f]')
ADDR=z3.Plus(HEX)
NOCC=z3.Complement(z3.Concat(ANY,z3.Re('::'),ANY))
FCH=z3.Union(z3.Range(' ','+'),z3.Range('-','{'),z3.Range('}','~')); FIELD=z3.Intersect(z3.Star(FCH), NOCC)
MN=z3.Intersect(FIELD, z3.Concat(z3.Intersect(FCH,z3.Complement(z3.Re(':'))),ANY))
REC=z3.Concat(ADDR,z3.Re('::'),MN,z3.Re(','),z3.Plus(z3.Concat(FIELD,z3.Re(','))),z3.Re('|'))
WF=z3.Star(REC)
s=z3.String('s')
def q(name, r, tmo=60000):
    sol=z3.Solver(); sol.set('timeout',tmo); sol.add(z3.InRe(s,r)); t=time.time(); res=sol.check(); 
    print('  ',name,res,'%.2fs'%(time.time()-t), repr(sol.model()[s].as_string()) if res==z3.sat else ''); return res
def contains(x): return z3.Intersect(FIELD, z3.Concat(ANY,z3.Re(x),ANY))
def item(m,ops=()):
    parts=[ADDR,z3.Re('::'), contains(m), z3.Re(',')]
    for o in ops: parts+= [contains(o), z3.Re(',')]
    parts+=[z3.Star(z3.Concat(FIELD,z3.Re(','))), z3.Re('|')]
    return z3.Concat(*parts)
def lemmas(doc, specstart, cap=1000):
    print(doc)
    rx=compile_rule(doc); ast,ng=parse(rx)
    L=cps(ast,ANY,star_cap=cap)
    q('AE jasm-not-spec', z3.Intersect(WF,L,z3.Complement(specstart)))
    q('AE spec-not-jasm', z3.Intersect(WF,specstart,z3.Complement(L)))
    q('SA', z3.Intersect(WF, z3.Concat(z3.Complement(z3.Concat(WF,z3.Star(HEX))), L)))
    q('HX', z3.Intersect(WF, z3.Concat(z3.Plus(HEX), L), z3.Complement(L)))
notmov=z3.Intersect(REC, z3.Complement(item('mov')))
lemmas({'pattern':['mov', {'$not':['mov']}, 'call']}, z3.Concat(item('mov'),notmov,item('call'),WF))
lemmas({'pattern':[{'$not':['mov']}, 'call']}, z3.Concat(notmov,item('call'),WF))
lemmas({'pattern':['a', {'$and':['b','c'],'times':2}, 'd']}, z3.Concat(item('a'),item('b'),item('c'),item('b'),item('c'),item('d'),WF))
lemmas({'pattern':['a', {'$not':['b'],'times':{'min':1,'max':2}}, 'd']}, z3.Concat(item('a'),z3.Loop(z3.Intersect(REC,z3.Complement(item('b'))),1,2),item('d'),WF))
print('exact loops (no cap)')
lemmas({'pattern':[{'mov':['a','b']}, 'call']}, z3.Concat(item('mov',['a','b']),item('call'),WF), cap=None)
