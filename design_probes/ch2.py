from typing import List
from jasm.stringify_asm.implementations.gnu_objdump.asm_manual_parser_w_regex import parse_line, LineParser, OperandsParser
from jasm.global_definitions import Instruction

def _plain(s: str) -> bool:
    return "(" not in s and ")" not in s and "," not in s

def operand_mem4(k: str, a: str, b: str, c: str) -> bool:
    """
    pre: 1 <= len(k) <= 3 and _plain(k)
    pre: len(a) <= 3 and _plain(a)
    pre: 1 <= len(b) <= 3 and _plain(b)
    pre: len(c) == 1 and _plain(c)
    post: _
    """
    r = OperandsParser([k + "(" + a + "," + b + "," + c + ")"]).parse()
    return r == ["[" + a + "+" + b + "*" + c + "+" + k + "]"]

def operand_mem1(k: str, a: str) -> bool:
    """
    pre: 1 <= len(k) <= 3 and _plain(k)
    pre: 1 <= len(a) <= 3 and _plain(a)
    post: _
    """
    r = OperandsParser([k + "(" + a + ")"]).parse()
    return r == ["[" + a + "+" + k + "]"]

def operand_mem3(a: str, b: str, c: str) -> bool:
    """
    pre: 1<= len(a) <= 3 and _plain(a)
    pre: 1 <= len(b) <= 3 and _plain(b)
    pre: len(c) == 1 and _plain(c)
    post: _
    """
    r = OperandsParser(["(" + a + "," + b + "," + c + ")"]).parse()
    return r == ["[" + a + "+" + b + "*" + c + "]"]

def split_ops(x: str, y: str, z: str) -> bool:
    """
    pre: 1 <= len(x) <= 3 and _plain(x)
    pre: 1 <= len(y) <= 3 and _plain(y)
    pre: 1 <= len(z) <= 3 and _plain(z)
    post: _
    """
    r = LineParser.get_splitted_operands(x + ",(" + y + "," + z + ",1)")
    return r == [x, "(" + y + "," + z + ",1)"]
