import z3, time, itertools
S=z3.StringVal
def mk(prefix, shape):
    ins=[]
    for i,k in enumerate(shape):
        a=z3.String(f'{prefix}a{i}'); m=z3.String(f'{prefix}m{i}'); ops=[z3.String(f'{prefix}o{i}_{j}') for j in range(k)]
        ins.append((a,m,ops))
    return ins
def enc(ins):
    parts=[]
    for a,m,ops in ins:
        parts+= [a,S('::'),m,S(',')]
        if ops:
            for o in ops: parts+=[o,S(',')]
        else: parts+=[S(',')]
        parts+=[S('|')]
    return z3.Concat(*parts) if len(parts)>1 else parts[0]
HEX=z3.Plus(z3.Union(z3.Range('0','9'),z3.Range('a','f')))
def wf(ins, strict=True):
    c=[]
    for a,m,ops in ins:
        c.append(z3.InRe(a,HEX))
        for f in [m]+ops:
            c+= [z3.Not(z3.Contains(f,S(','))), z3.Not(z3.Contains(f,S('|')))]
            if strict: c.append(z3.Not(z3.Contains(f,S('::'))))
        c.append(z3.Length(m)>0)
        if strict: c.append(z3.Not(z3.PrefixOf(S(':'),m)))
        # an instruction with exactly one operand that is empty is indistinguishable from no operands: exclude (parser never yields [""])
        if len(ops)==1: c.append(z3.Length(ops[0])>0)
    return c
def differ(A,B):
    if [len(x[2]) for x in A]!=[len(x[2]) for x in B] or len(A)!=len(B): return z3.BoolVal(True)
    d=[]
    for (a,m,o),(a2,m2,o2) in zip(A,B):
        d+= [a!=a2, m!=m2]+[x!=y for x,y in zip(o,o2)]
    return z3.Or(*d)
shapes=[(0,),(1,),(2,),(1,0)]
t0=time.time(); res={}
for sa in shapes:
    for sb in shapes:
        A=mk('A',sa); B=mk('B',sb)
        sol=z3.Solver(); sol.set('timeout',20000)
        sol.add(*wf(A), *wf(B), enc(A)==enc(B), differ(A,B))
        r=str(sol.check()); res[r]=res.get(r,0)+1
        print(sa,sb,r,'%.1f'%(time.time()-t0), flush=True)
print(res, '%.1fs'%(time.time()-t0))
# mutant: drop the '::' restriction -> expect sat
A=mk('A',(1,)); B=mk('B',(1,)); sol=z3.Solver(); sol.add(*wf(A,False),*wf(B,False),enc(A)==enc(B),differ(A,B)); print('twin',sol.check(), sol.model())
