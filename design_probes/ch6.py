from typing import List, Optional
import jasm.consumer as cons
from jasm.consumer import CompleteConsumer
from jasm.global_definitions import MatchingSearchMode, Instruction
from jasm.matched_observers import MatchedObserver

class _M:
    def __init__(self, t): self.t = t
    def group(self, i=0):
        assert i == 0
        return self.t
    def __bool__(self): return True
class _StubRegex:
    """nondeterministic but self-consistent model of the regex engine: hits is the leftmost non-overlapping scan result"""
    def __init__(self, hits): self.hits = hits; self.calls = []
    def search(self, pattern, string, timeout=None, **kw):
        assert not kw
        self.calls.append(("search", pattern, string))
        return _M(self.hits[0]) if self.hits else None
    def finditer(self, pattern, string, timeout=None, **kw):
        assert not kw
        self.calls.append(("finditer", pattern, string))
        return iter([_M(h) for h in self.hits])

def _run(hits, all_mode, only_addr):
    stub = _StubRegex(hits)
    cons.regex = stub
    obs = MatchedObserver()
    c = CompleteConsumer(regex_rule="R", matched_observer=obs,
                         matching_mode=MatchingSearchMode.all_finds if all_mode else MatchingSearchMode.first_find,
                         return_only_address=only_addr)
    c.consume_instruction(Instruction("1", "mov", ["a"]))
    c.finalize()
    return obs, stub

def modes_agree(hits: List[str]) -> bool:
    """
    pre: len(hits) <= 3 and all(len(h) <= 5 for h in hits)
    post: _
    """
    o_all, s1 = _run(hits, True, False)
    o_first, _ = _run(hits, False, False)
    o_all_a, _ = _run(hits, True, True)
    o_first_a, _ = _run(hits, False, True)
    ok = o_all.addr_list == hits and o_all.matched == (len(hits) > 0)
    ok = ok and o_first.addr_list == hits[:1] and o_first.matched == (len(hits) > 0)
    ok = ok and len(o_all_a.addr_list) == len(hits)
    ok = ok and all((h.startswith(a + "::") or ("::" not in h and a == h)) for a, h in zip(o_all_a.addr_list, hits))
    ok = ok and o_first_a.addr_list == o_all_a.addr_list[:1]
    ok = ok and s1.calls == [("finditer", "R", "1::mov,a,|")]
    return ok

def modes_agree2(a1: str, r1: str, a2: str, r2: str, n: int) -> bool:
    """
    pre: len(a1) <= 2 and len(a2) <= 2 and len(r1) <= 2 and len(r2) <= 2 and 0 <= n <= 2
    pre: ":" not in a1 and ":" not in a2
    post: _
    """
    hits = [a1 + "::" + r1, a2 + "::" + r2][:n]
    o_all, s1 = _run(hits, True, False)
    o_first, _ = _run(hits, False, False)
    o_all_a, _ = _run(hits, True, True)
    o_first_a, _ = _run(hits, False, True)
    ok = o_all.addr_list == hits and o_all.matched == (len(hits) > 0)
    ok = ok and o_first.addr_list == hits[:1] and o_first.matched == (len(hits) > 0)
    ok = ok and o_all_a.addr_list == [a1, a2][:n]
    ok = ok and o_first_a.addr_list == [a1, a2][:n][:1]
    ok = ok and s1.calls == [("finditer", "R", "1::mov,a,|")]
    return ok
