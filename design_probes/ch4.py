import builtins
from typing import Optional, List
import jasm.global_definitions as gd
from jasm.global_definitions import ValidAddrRange, Instruction
from jasm.match import ValidAddrObserver

class HexStr:
    """abstract value for a hexadecimal numeral: optional 0x prefix + value; models only the str ops JASM uses"""
    def __init__(self, prefixed, val): self.prefixed = prefixed; self.val = val
    def startswith(self, p):
        if p == "0x": return self.prefixed
        raise NotImplementedError(p)
    def __getitem__(self, k):
        if isinstance(k, slice) and k.start == 2 and k.stop is None and self.prefixed: return HexStr(False, self.val)
        raise NotImplementedError(k)
    def __contains__(self, x):
        if x == "*": return False
        raise NotImplementedError(x)
def _int(x, base=10):
    if isinstance(x, HexStr):
        if base != 16 or x.prefixed: raise NotImplementedError
        return x.val
    return builtins.int(x, base)
gd.int = _int

def in_range(t: int, tp: bool, lo: int, lop: bool, hi: int, hip: bool) -> bool:
    """
    pre: t >= 0 and lo >= 0 and hi >= 0
    post: _
    """
    r = ValidAddrRange(min_addr=HexStr(lop, lo), max_addr=HexStr(hip, hi))
    return r.is_in_range(HexStr(tp, t)) == (lo <= t <= hi)

def observer(t: int, tp: bool, lo: int, hi: int, mn: str, second: str) -> bool:
    """
    pre: t >= 0 and lo >= 0 and hi >= 0 and len(mn) <= 4 and len(second) <= 2
    post: _
    """
    obs = ValidAddrObserver(ValidAddrRange(min_addr=HexStr(False, lo), max_addr=HexStr(True, hi)))
    target = HexStr(tp, t)
    inst = Instruction(addr="10", mnemonic=mn, operands=[target, second])
    out = obs.observe_instruction(inst)
    direct = mn in ("call", "jmp")
    if direct and lo <= t <= hi:
        return out.operands == ["valid_addr"] and out.addr == "10" and out.mnemonic == mn
    if mn in ("callq","jne","je","jg","jge","jl","jle","jz","jnz"):
        return True  # property silent about conditional jumps
    return out.operands == [target, second] and out.addr == "10" and out.mnemonic == mn
