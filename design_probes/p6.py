import time, z3, sys
from rx import *
from gen import compile_rule
SH=0x80
PRINT=[(0x20,0x7e)]
def chars_of(neg,items):
    out=[]
    for c in range(0x20,0x7f):
        v=any(ord(a)<=c<=ord(b) for _,a,b in items)
        if v!=neg: out.append(c)
    return out
def ranges(cs, sh):
    rs=[];i=0
    cs=sorted(cs)
    while i<len(cs):
        j=i
        while j+1<len(cs) and cs[j+1]==cs[j]+1: j+=1
        rs.append(z3.Range(chr(cs[i]+sh),chr(cs[j]+sh))); i=j+1
    return rs[0] if len(rs)==1 else z3.Union(*rs)
def leaf(n, cols):
    if n[0]=='lit': cs=[ord(n[1])]
    else: cs=chars_of(n[1],n[2])
    rs=[ranges(cs, SH*k) for k in cols]
    return rs[0] if len(rs)==1 else z3.Union(*rs)
def cplain(n, cols, cap=1000):
    k=n[0]
    if k in('lit','cls'): return leaf(n,cols)
    if k=='cat':
        xs=[cplain(x,cols,cap) for x in n[1]]
        return z3.Re("") if not xs else (xs[0] if len(xs)==1 else z3.Concat(*xs))
    if k=='alt': return z3.Union(*[cplain(x,cols,cap) for x in n[1]])
    if k=='grp': return cplain(n[1],cols,cap)
    if k=='rep':
        a=cplain(n[1],cols,cap); lo,hi=n[2],n[3]
        if hi is not None and hi>=cap: hi=None
        if hi is None: return z3.Star(a) if lo==0 else (z3.Plus(a) if lo==1 else z3.Concat(z3.Loop(a,lo,lo),z3.Star(a)))
        return z3.Loop(a,lo,hi)
    raise Exception(k)
def ccps(n,K,cols,ANYC,cap=1000):
    if not has_la(n): return z3.Concat(cplain(n,cols,cap),K)
    k=n[0]
    if k=='nla': return z3.Intersect(K, z3.Complement(ccps(n[1],ANYC,(1,2),ANYC,cap)))
    if k=='cat':
        r=K
        for x in reversed(n[1]): r=ccps(x,r,cols,ANYC,cap)
        return r
    if k=='alt': return z3.Union(*[ccps(x,K,cols,ANYC,cap) for x in n[1]])
    if k=='grp': return ccps(n[1],K,cols,ANYC,cap)
    if k=='rep':
        lo,hi=n[2],n[3]; r=K
        for _ in range(hi-lo): r=z3.Union(K,ccps(n[1],r,cols,ANYC,cap))
        for _ in range(lo): r=ccps(n[1],r,cols,ANYC,cap)
        return r
def P(t): return parse(t)[0]
S1=cplain(P('[ -~]'),(1,)); S2=cplain(P('[ -~]'),(2,)); S12=cplain(P('[ -~]'),(1,2))
ANYC=z3.Star(S12)
def wf(cols):
    HEX=cplain(P('[0-9a-f]'),cols)
    FCH=cplain(P('[^,|]'),cols)
    CC=cplain(P('::'),cols)
    FIELD=z3.Intersect(z3.Star(FCH), z3.Complement(z3.Concat(ANYC,CC,ANYC)))
    MN=z3.Intersect(FIELD, z3.Concat(cplain(P('[^,|:]'),cols),ANYC))
    REC=z3.Concat(z3.Plus(HEX),CC,MN,cplain(P(','),cols),z3.Plus(z3.Concat(FIELD,cplain(P(','),cols))),cplain(P('[|]'),cols))
    return HEX,FIELD,REC
HEX1,FIELD1,REC1=wf((1,)); HEX2,FIELD2,REC2=wf((2,)); HEX12,FIELD12,REC12=wf((1,2))
WF12=z3.Intersect(z3.Star(REC12), z3.Concat(z3.Star(S1),z3.Star(S2)))
def lit(x,cols): return cplain(P(x),cols)
def item(m,cols,REC=None):
    HEX,FIELD,_=wf(cols)
    return z3.Concat(z3.Plus(HEX),lit('::',cols), z3.Intersect(FIELD, z3.Concat(ANYC,lit(m,cols),ANYC)), lit(',',cols), z3.Star(z3.Concat(FIELD,lit(',',cols))), lit('[|]',cols))
s=z3.String('s')
def q(name, r, tmo=60000):
    sol=z3.Solver(); sol.set('timeout',tmo); sol.add(z3.InRe(s,r)); t=time.time(); res=sol.check()
    w=''
    if res==z3.sat:
        v=sol.model()[s].as_string()
        import re
        v=re.sub(r'\\u\{(\w+)\}', lambda m: chr(int(m.group(1),16)), v)
        w=''.join(c if ord(c)<SH else '\x1b[7m'+chr(ord(c)-SH)+'\x1b[0m' for c in v)
    print('  ',name,res,'%.2fs'%(time.time()-t), w); return res
def lem(doc, specM):
    print(doc)
    ast,_=parse(compile_rule(doc))
    LM=ccps(ast, z3.Star(S2), (1,), ANYC)
    SM=z3.Concat(specM, z3.Star(REC2))
    q('AEM jasm-not-spec', z3.Intersect(WF12, LM, z3.Complement(SM)))
    q('AEM spec-not-jasm', z3.Intersect(WF12, SM, z3.Complement(LM)))
    q('EA', z3.Intersect(WF12, LM, z3.Concat(z3.Star(S1), cplain(P('[^|]'),(1,)), z3.Star(S2))))
    q('nonempty', z3.Intersect(WF12, LM, z3.Star(S2)))
notb=z3.Intersect(REC1, z3.Complement(z3.Concat(item('b',(1,2)),ANYC)))
lem({'pattern':['a', {'$not':['b']}]}, z3.Concat(item('a',(1,)), notb))
nb2=z3.Intersect(REC1, z3.Complement(z3.Concat(item('b',(1,2)),item('c',(1,2)),ANYC)))
lem({'pattern':['a', {'$not':[{'$and':['b','c']}]}]}, z3.Concat(item('a',(1,)), z3.Intersect(z3.Concat(REC1,z3.Star(S2)), z3.Complement(z3.Concat(item('b',(1,2)),item('c',(1,2)),ANYC)))))
lem({'pattern':['a', {'$and':['b','c'],'times':2}]}, z3.Concat(item('a',(1,)),item('b',(1,)),item('c',(1,)),item('b',(1,)),item('c',(1,))))
lem({'pattern':[{'push':[{'$not':['rex']}]}]}, z3.Concat(item('push',(1,))))
