import sys, builtins, subprocess
from typing import List, Optional, Dict, Any
import jasm.global_definitions as gd
from jasm.global_definitions import JASMConfig, PartialMatchingConfig, DisassStyle, Instruction, TimesType, MatchingSearchMode
from jasm.stringify_asm.implementations.gnu_objdump.asm_manual_parser_w_regex import OperandsParser
from jasm.jasm_regex.tree_generators.pattern_node_implementations.time_type_builder import TimesTypeBuilder
import jasm.jasm_regex.tree_generators.pattern_node_implementations.mnemonic_and_operand.mnemonic_and_operand as mo
from jasm.jasm_regex.tree_generators.pattern_node_abstract import PatternNodeData
from jasm.jasm_regex.tree_generators.shared_context import SharedContext
from jasm.jasm_regex.tree_generators.capture_manager import CapturesManager

def _plain(s: str) -> bool:
    return "(" not in s and ")" not in s and "," not in s

def mem4_len1(k: str, a: str, b: str, c: str) -> bool:
    """
    pre: len(k) == 1 and len(a) == 1 and len(b) == 1 and len(c) == 1
    pre: _plain(k) and _plain(a) and _plain(b) and _plain(c)
    post: _
    """
    r = OperandsParser([k + "(" + a + "," + b + "," + c + ")"]).parse()
    return r == ["[" + a + "+" + b + "*" + c + "+" + k + "]"]

def times_text(a: int, b: int) -> bool:
    """
    pre: 0 <= a <= b <= 20
    post: _
    """
    r = TimesTypeBuilder.get_min_max_regex(TimesType(a, b))
    if a == 1 and b == 1:
        return r is None
    if a == b:
        return r == "{" + str(a) + "}"
    return r == "{" + str(a) + "," + str(b) + "}"

_HEXLIKE = [False]
class _IntMeta(type):
    def __instancecheck__(cls, x): return isinstance(x, builtins.int)
class _Int(metaclass=_IntMeta):
    def __new__(cls, x, base=10):
        if base == 16:
            if _HEXLIKE[0]: return 0
            raise ValueError("not hex")
        return builtins.int(x, base)
mo.int = _Int
def _node(name):
    return PatternNodeData(name=name, times=TimesType(1, 1), children=None, parent=None, shared_context=SharedContext(capture_manager=CapturesManager()))
def operand_leaf(name: str, full: bool, hexlike: bool) -> bool:
    """
    pre: 1 <= len(name) <= 3
    post: _
    """
    _HEXLIKE[0] = hexlike
    JASMConfig._instance = None
    c = JASMConfig()
    c.global_info[PartialMatchingConfig.OperandsFullMatch] = full
    c.global_info[PartialMatchingConfig.MnemonicsFullMatch] = False
    r = mo.PatternNodeOperand(_node(name)).get_regex()
    if full:
        return r == name + ","
    return r == gd.IGNORE_NAME_PREFIX + name + gd.IGNORE_NAME_SUFFIX

def encode_format(a1: str, m1: str, o1: str, o2: str, a2: str, m2: str, n1: int) -> bool:
    """
    pre: len(a1) <= 2 and len(m1) <= 2 and len(o1) <= 2 and len(o2) <= 2 and len(a2) <= 2 and len(m2) <= 2 and 0 <= n1 <= 2
    post: _
    """
    import jasm.consumer as cons
    from jasm.matched_observers import MatchedObserver
    class _S:
        def search(self, pattern, string, timeout=None): return None
        def finditer(self, pattern, string, timeout=None): return iter(())
    cons.regex = _S()
    obs = MatchedObserver()
    c = cons.CompleteConsumer("R", obs, MatchingSearchMode.first_find, False)
    ops1 = [o1, o2][:n1]
    c.consume_instruction(Instruction(a1, m1, ops1))
    c.consume_instruction(Instruction(a2, m2, []))
    c.finalize()
    exp = a1 + "::" + m1 + ","
    if n1 == 0: exp += ",|"
    elif n1 == 1: exp += o1 + ",|"
    else: exp += o1 + "," + o2 + ",|"
    exp += a2 + "::" + m2 + ",,|"
    return obs.stringified_instructions == exp

def objdump_argv(sections: List[str], out: str, present: bool) -> bool:
    """
    pre: len(sections) <= 3 and all(len(s) <= 3 for s in sections) and len(out) <= 4
    post: _
    """
    import jasm.stringify_asm.implementations.shell_disassembler as sd
    from jasm.stringify_asm.implementations.gnu_objdump.gnu_objdump_disassembler import GNUObjdumpDisassembler
    from jasm.stringify_asm.implementations.composable_producer import ComposableProducer
    calls = []
    class _CP:
        def __init__(s, rc, so): s.returncode = rc; s.stdout = so; s.stderr = ""
    class _SP:
        CalledProcessError = subprocess.CalledProcessError
        @staticmethod
        def run(argv, **kw):
            calls.append((argv, kw)); return _CP(0, out)
    class _Path:
        def __init__(s, p): pass
        def exists(s): return True
    sd.subprocess = _SP; sd.Path = _Path
    JASMConfig._instance = None
    cfg = JASMConfig()
    cfg.load_config({"sections": sections} if present else {})
    got = []
    class _Parser:
        def parse(s, file, iConsumer): got.append(file)
    class _Cons:
        def finalize(s): got.append("fin")
    ComposableProducer(GNUObjdumpDisassembler(DisassStyle.att), _Parser()).process_file("F", _Cons())
    exp = ["objdump", "-d", "-M", "att"]
    if present:
        for s in sections: exp += ["-j", s]
    exp += ["F"]
    return len(calls) == 1 and calls[0][0] == exp and calls[0][1] == dict(capture_output=True, text=True, check=True) and got == [out, "fin"]

def cli_plumbing(allm: bool, only: bool, which: int, nmac: int, has_p: bool) -> bool:
    """
    pre: 0 <= which <= 3 and 0 <= nmac <= 2
    post: _
    """
    import jasm.main as jm
    from jasm.global_definitions import InputFileType, MatchingSearchMode as MS
    rec = []
    class _MOP:
        def __init__(s, match_config): rec.append(match_config)
        def perform_matching(s): rec.append("run"); return True
    jm.MasterOfPuppets = _MOP
    jm.configure_logger = lambda **kw: None
    argv = ["jasm"]
    if has_p: argv += ["-p", "P.yaml"]
    if which in (1, 3): argv += ["-s", "A.s"]
    if which in (2, 3): argv += ["-b", "B.bin"]
    if allm: argv.append("--all-matches")
    if only: argv.append("--return_only_address")
    if nmac: argv += ["--macros"] + ["m1.yaml", "m2.yaml"][:nmac]
    sys.argv = argv
    try:
        jm.main()
    except SystemExit as e:
        return (not has_p or which in (0, 3)) and e.code not in (0, None) and rec == []
    if not has_p or which in (0, 3):
        return False
    mc = rec[0]
    return (len(rec) == 2 and mc.pattern_pathstr == "P.yaml"
            and mc.input_file == ("A.s" if which == 1 else "B.bin")
            and mc.input_file_type == (InputFileType.assembly if which == 1 else InputFileType.binary)
            and mc.matching_mode == (MS.all_finds if allm else MS.first_find)
            and mc.return_only_address == only
            and mc.macros == (["m1.yaml", "m2.yaml"][:nmac] if nmac else None))
