import time, z3, re, sys
from rx import parse
import jasm.stringify_asm.implementations.gnu_objdump.asm_manual_parser_w_regex as ap
SH=0x100
ALPHA=[0x09]+list(range(0x20,0x7f))
def chars_of(neg,items):
    return [c for c in ALPHA if (any(ord(a)<=c<=ord(b) for _,a,b in items))!=neg]
def rng(cs,k):
    rs=[];cs=sorted(cs);i=0
    while i<len(cs):
        j=i
        while j+1<len(cs) and cs[j+1]==cs[j]+1: j+=1
        rs.append(z3.Range(chr(cs[i]+SH*k),chr(cs[j]+SH*k))); i=j+1
    return rs
def leaf(n,cols):
    cs=[ord(n[1])] if n[0]=='lit' else chars_of(n[1],n[2])
    rs=[r for k in cols for r in rng(cs,k)]
    return rs[0] if len(rs)==1 else z3.Union(*rs)
def tr(n,cols,grpcol=None):
    """cols: colours accepted outside groups; grpcol: dict group->cols (if None, same)"""
    k=n[0]
    if k in('lit','cls'): return leaf(n,cols)
    if k=='cat':
        xs=[tr(x,cols,grpcol) for x in n[1]]
        return z3.Re("") if not xs else (xs[0] if len(xs)==1 else z3.Concat(*xs))
    if k=='alt': return z3.Union(*[tr(x,cols,grpcol) for x in n[1]])
    if k=='grp': return tr(n[1],cols,grpcol)
    if k=='cap': return tr(n[2], (grpcol[n[1]] if grpcol else cols), grpcol)
    if k=='rep':
        a=tr(n[1],cols,grpcol); lo,hi=n[2],n[3]
        if hi is None: return z3.Star(a) if lo==0 else (z3.Plus(a) if lo==1 else z3.Concat(z3.Loop(a,lo,lo),z3.Star(a)))
        return z3.Loop(a,lo,hi)
    raise Exception(k)
def P(t): return parse(t)[0]
def prep(t): 
    t=t.lstrip('^'); 
    return t[:-1] if t.endswith('$') else t
ALL=(0,1,2,3)
ANY=z3.Star(tr(P('[\t -~]'),ALL))
def REGEX(t, groupcols): 
    ast=P(prep(t)); return z3.Concat(tr(ast,(0,),groupcols), z3.Re("")) if t.endswith('$') else z3.Concat(tr(ast,(0,),groupcols),ANY)
# ---- grammar G as list of (colour, regex) segments
REG=r'%[a-z][a-z0-9]{1,4}'
DISP=r'-?0x[0-9a-f]{1,16}'
MEM=rf'(?:(?:%[a-z]s:)?(?:{DISP})?\((?:{REG})?(?:,{REG},[1248])?\)|(?:%[a-z]s:)?(?:{DISP})?\({REG},{REG}\))'   # includes 16-bit pair form
OPND=rf'(?:\*?{REG}|\${DISP}|\*?{MEM}|\*?{DISP}|[0-9a-f]{{1,16}}|%st\([0-7]\))'
OPS=rf'{OPND}(?:,{OPND}){{0,3}}'
PREFIX=r'(?:(?:lock|rep|repz|repnz|addr32|cs|ds|es|fs|gs|ss|notrack|bnd|rex\.[WRXB]{1,4}) ){0,2}'
MN=r'(?:[a-z][a-z0-9]{0,9}|\(bad\)|\.byte)'
HINT=r'(?:,p[tn])?'
TAIL=r'(?: {1,8}(?:<[!-~]{1,12}>|# [!-~ ]{0,20})){0,2}'
HEADsegs=[(0,r' {0,8}'),(1,r'[0-9a-f]{1,16}'),(0,r':\t(?:[0-9a-f]{2} ){1,7} {0,21}\t')]
G_ops   = HEADsegs+[(2,MN+HINT),(0,r' {1,7}'),(3,OPS),(0,TAIL)]
G_noops = HEADsegs+[(2,MN),(0,r' {0,6}'+TAIL)]
def Gint(segs): return z3.Concat(*[tr(P(t),(c,)) for c,t in segs])
def Gblind(segs): return z3.Concat(*[tr(P(t),ALL) for c,t in segs])
def Gplain(segs): return ''.join(t for c,t in segs)
s=z3.String('s')
def show(v):
    v=re.sub(r'\\u\{(\w+)\}', lambda m: chr(int(m.group(1),16)), v)
    return ''.join(f'{chr(ord(c)%SH)}' for c in v), ''.join(str(ord(c)//SH) for c in v)
def q(name,r,tmo=120000):
    sol=z3.Solver(); sol.set('timeout',tmo); sol.add(z3.InRe(s,r)); t=time.time(); res=sol.check()
    print(name,res,'%.2fs'%(time.time()-t)); 
    if res==z3.sat:
        a,b=show(sol.model()[s].as_string()); print('   ',repr(a)); print('    ',b)
    return res
GC={1:(1,),2:(2,),3:(3,)}
W=REGEX(ap.INSTRUCTION_W_OPERANDS,GC); N=REGEX(ap.INSTRUCION_NO_OPERANDS,{1:(1,),2:(2,)})
W0=REGEX(ap.INSTRUCTION_W_OPERANDS,{1:ALL,2:ALL,3:ALL})
# blind versions of regex: all colours everywhere
def REGEXblind(t):
    ast=P(prep(t)); r=tr(ast,ALL,None); return r if t.endswith('$') else z3.Concat(r,ANY)
Wb=REGEXblind(ap.INSTRUCTION_W_OPERANDS); Nb=REGEXblind(ap.INSTRUCION_NO_OPERANDS); Lb=REGEXblind(ap.LINE_IS_LABER); Pb=REGEXblind(ap.LINE_NOP_PADDING)
q('(i) ops lines accepted by W', z3.Intersect(Gblind(G_ops), z3.Complement(Wb)))
q('(ii.a) intended decomposition is a match', z3.Intersect(Gint(G_ops), z3.Complement(W)))
q('(ii.b) unique decomposition', z3.Intersect(W, Gblind(G_ops), z3.Complement(Gint(G_ops))))
q('(i) noops lines: not W but N', z3.Intersect(Gblind(G_noops), z3.Union(Wb, z3.Complement(Nb))))
q('(C10) mnemonic group has no comma', z3.Intersect(W, Gblind(G_ops), z3.Concat(ANY, tr(P(','),(2,)), ANY)))
# grammar validation against real objdump output
gre=re.compile('(?:'+Gplain(G_ops)+'|'+Gplain(G_noops)+')$')
bad=0;tot=0;ex=[]
for l in open('rnd_i386:x86-64.s'):
    l=l.rstrip('\n')
    if re.match(r' +[0-9a-f]+:\t', l) and '\t' in l.split(':\t',1)[1]:
        tot+=1
        if not gre.match(l): bad+=1; ex.append(l) if len(ex)<8 else None
print('grammar gaps',bad,'/',tot); 
for e in ex: print('   ',repr(e))
