import copy
from typing import Any, List
from jasm.jasm_regex.macro_expander.macro_expander import MacroExpander

def _nm(s: str) -> bool:
    return 2 <= len(s) <= 3 and s[0] == "@" and "@" not in s[1:]
def _leaf(s: str) -> bool:
    return 1 <= len(s) <= 2 and "@" not in s

def contains_at(t: Any) -> bool:
    if isinstance(t, str): return "@" in t
    if isinstance(t, list): return any(contains_at(x) for x in t)
    if isinstance(t, dict): return any(contains_at(k) or contains_at(v) for k, v in t.items())
    return False

def whole_item(n: str, r: str, body: str, x: str) -> bool:
    """
    pre: _nm(n) and _nm(r) and _leaf(body) and _leaf(x)
    post: _
    """
    tree = {"$and": [x, r, {"mov": [r, x]}]}
    macros = [{"name": n, "pattern": body}]
    try:
        out = MacroExpander().resolve_all_macros(macros=macros, pattern_tree=tree)
    except ValueError:
        return n != r
    if n == r:
        return out == {"$and": [x, body, {"mov": [body, x]}]}
    return False  # r undefined: must have raised

def key_position(n: str, r: str, body: str) -> bool:
    """
    pre: _nm(n) and _nm(r) and _leaf(body)
    post: _
    """
    tree = {"$and": [{r: {"times": 2}}]}
    macros = [{"name": n, "pattern": body}]
    try:
        out = MacroExpander().resolve_all_macros(macros=macros, pattern_tree=tree)
    except ValueError:
        return n != r
    if n == r:
        return out == {"$and": [{body: {"times": 2}}]}
    return not contains_at(out)
