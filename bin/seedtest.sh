#!/bin/bash
# bin/seedtest.sh <patch.diff> <ID> [<ID> ...]   apply a seeded change to /repo, run the quick checks, undo it.
# (development aid; never leaves /repo modified)
set -u
PATCH="$1"; shift
cd /repo || exit 2
if ! git diff --quiet; then echo "/repo is dirty"; exit 2; fi
git apply "$PATCH" || { echo "patch does not apply"; exit 2; }
trap 'git -C /repo checkout -- . ; git -C /repo clean -fdq src tests 2>/dev/null' EXIT
cd /verif
for id in "$@"; do
  out=$(VERIF_TIER=${VERIF_TIER:-quick} ./check "$id" 2>&1); rc=$?
  echo "== $id exit=$rc"
  echo "$out" | grep -E "^VIOLATION|^  key=|^HARNESS-ERROR|^\[" | cut -c1-260 | head -8
done
git -C /verif checkout -- evidence 2>/dev/null
