#!/usr/bin/env python3
"""Re-confirm, in a dedicated scratch worktree and with PYTHONPATH pointing at it (the /venv has an editable install of
/repo, so a plain `pytest` in a worktree would import /repo's sources), that each seeded change keeps the test-suite
at 129 passed / the 3 baseline failures and that its demo passes without / fails with the change."""
import glob, json, os, subprocess, sys
WT = "/tmp/wtc"
out = {}
env = dict(os.environ, PYTHONPATH=f"{WT}/src")
for sd in sorted(glob.glob(os.environ.get("SEEDBASE", "/tmp/wt3") + "/C*/_seed/C*_*")):
    name = os.path.basename(sd)
    subprocess.run(["git", "-C", WT, "checkout", "-q", "--", "."])
    c = subprocess.run(["/venv/bin/python", os.path.join(sd, "demo.py")], cwd=WT, env=env, capture_output=True, text=True)
    a = subprocess.run(["git", "-C", WT, "apply", os.path.join(sd, "patch.diff")], capture_output=True, text=True)
    if a.returncode:
        out[name] = {"error": "patch does not apply"}
        print(name, out[name], flush=True)
        continue
    t = subprocess.run(["/venv/bin/python", "-m", "pytest", "-q", "-p", "no:cacheprovider", "--timeout=900"], cwd=WT, env=env, capture_output=True, text=True)
    chk = subprocess.run(["/venv/bin/python", "-c", "import jasm; print(jasm.__file__)"], cwd=WT, env=env, capture_output=True, text=True).stdout.strip()
    p = subprocess.run(["/venv/bin/python", os.path.join(sd, "demo.py")], cwd=WT, env=env, capture_output=True, text=True)
    last = t.stdout.strip().splitlines()[-1] if t.stdout.strip() else "?"
    failed = sorted(l.split("::", 1)[1][:60] for l in t.stdout.splitlines() if l.startswith("FAILED") and "moonbounce_malware_full" not in l)
    out[name] = {"demo_clean": c.returncode, "demo_patched": p.returncode, "tests": last, "extra_failures": failed, "jasm_from": chk}
    print(name, out[name], flush=True)
    subprocess.run(["git", "-C", WT, "checkout", "-q", "--", "."])
    subprocess.run(["rm", "-rf", os.path.join(WT, "logs")])
json.dump(out, open("/tmp/wt3/seedtests.json", "w"), indent=1)
