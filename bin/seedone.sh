#!/bin/bash
# usage: seedone.sh <worktree> <seed> <check>... : apply one kept seeded change in a scratch worktree and run checks against it
wt=$1; s=$2; shift 2
git -C $wt checkout -q -- . && git -C $wt apply /verif/seeded/$s/patch.diff || exit 3
for c in "$@"; do JASM_REPO=$wt /verif/check $c 2>&1 | grep -v "^  \|KNOWN-FINDING" | tail -${TAILN:-3}; done
git -C $wt checkout -q -- .; rm -rf $wt/logs
