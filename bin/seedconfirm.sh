#!/bin/bash
# bin/seedconfirm.sh <worktree> <seed dir>  : confirm a seeded change in a scratch worktree
#   demo passes on clean tree, patch applies, test-suite unchanged (129 pass), demo fails with the patch.
WT="$1"; SD="$2"
cd "$WT" || exit 2
git checkout -q -- . 2>/dev/null
PYTHONPATH="$WT/src" /venv/bin/python "$SD/demo.py" >/tmp/seed_demo_clean.out 2>&1; c=$?
git apply "$SD/patch.diff" || { echo "PATCH DOES NOT APPLY"; exit 2; }
t=$(/venv/bin/python -m pytest -q -p no:cacheprovider --timeout=900 2>&1 | tail -1)
PYTHONPATH="$WT/src" /venv/bin/python "$SD/demo.py" >/tmp/seed_demo_patched.out 2>&1; p=$?
git checkout -q -- .
rm -rf logs 2>/dev/null
echo "demo_clean_exit=$c demo_patched_exit=$p tests: $t"
