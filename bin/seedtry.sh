#!/bin/bash
# bin/seedtry.sh <seed name e.g. C07_2> <ID>...   apply the seed in its own scratch worktree and point the checks at it
S="$1"; shift; P="${S%%_*}"; WT=${SEEDBASE:-/tmp/wt}/$P
git -C $WT checkout -q -- . ; git -C $WT apply $WT/_seed/$S/patch.diff || exit 2
for id in "$@"; do
  out=$(JASM_REPO=$WT VERIF_TIER=${VERIF_TIER:-quick} /verif/check "$id" 2>&1); rc=$?
  echo "== $S / $id exit=$rc"; echo "$out" | grep -E "^VIOLATION|^  key=|^HARNESS-ERROR" | cut -c1-260 | head -6
done
git -C $WT checkout -q -- . ; rm -rf $WT/logs
