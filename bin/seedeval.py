#!/usr/bin/env python3
"""Development aid: confirm every seeded change under /tmp/wt/*/_seed and run the related quick checks against it.
The change is applied in the agent's own scratch worktree and the checks are pointed at it with JASM_REPO
(so /repo is never touched while background runs use it). Results -> /tmp/wt/results.json"""
import glob, json, os, re, subprocess, sys

RELATED = {"C01": ["C01", "C07"], "C02": ["C02"], "C03": ["C03"], "C04": ["C04", "C07", "C14"], "C05": ["C05", "C14"], "C06": ["C06", "C09"],
           "C07": ["C07", "C04", "C11"], "C08": ["C08", "C16", "C10"], "C09": ["C09", "C06", "C08", "C10", "C14", "C18"], "C10": ["C10", "C08", "C09", "C14"],
           "C11": ["C11", "C12"], "C12": ["C12", "C11"], "C13": ["C13", "C19", "C14"], "C14": ["C14"], "C15": ["C15", "C14"], "C16": ["C16", "C08"],
           "C17": ["C17", "C19"], "C18": ["C18"], "C19": ["C19", "C13", "C17", "C14"], "C20": ["C20", "C12"]}
RES = os.environ.get("SEEDRES", "/tmp/wt/results.json")
results = json.load(open(RES)) if os.path.exists(RES) else {}
only = sys.argv[1:]
BASE = os.environ.get("SEEDBASE", "/tmp/wt")
for sd in sorted(glob.glob(f"{BASE}/C*/_seed/C*_*")):
    name = os.path.basename(sd)
    pid = name.split("_")[0]
    if only and name not in only and pid not in only:
        continue
    if name in results:
        continue
    wt = f"{BASE}/{pid}"
    if not os.path.exists(os.path.join(sd, "patch.diff")):
        continue
    r = {"seed": name}
    subprocess.run(["git", "-C", wt, "checkout", "-q", "--", "."])
    env = dict(os.environ, PYTHONPATH=f"{wt}/src")
    c = subprocess.run(["/venv/bin/python", os.path.join(sd, "demo.py")], cwd=wt, env=env, capture_output=True, text=True)
    r["demo_clean"] = c.returncode
    a = subprocess.run(["git", "-C", wt, "apply", os.path.join(sd, "patch.diff")], capture_output=True, text=True)
    if a.returncode != 0:
        r["error"] = "patch does not apply"
        results[name] = r
        continue
    t = subprocess.run(["/venv/bin/python", "-m", "pytest", "-q", "-p", "no:cacheprovider", "--timeout=900"], cwd=wt, env=env, capture_output=True, text=True)
    r["tests"] = t.stdout.strip().splitlines()[-1] if t.stdout.strip() else "?"
    p = subprocess.run(["/venv/bin/python", os.path.join(sd, "demo.py")], cwd=wt, env=env, capture_output=True, text=True)
    r["demo_patched"] = p.returncode
    r["checks"] = {}
    for chk in ([pid] if os.environ.get("ONLYOWN") else RELATED[pid]):
        e = dict(os.environ, JASM_REPO=wt, VERIF_TIER="quick")
        o = subprocess.run(["/verif/check", chk], cwd="/verif", env=e, capture_output=True, text=True)
        keys = sorted(set(re.findall(r"^  key=(\S+)", o.stdout, re.M)))
        r["checks"][chk] = {"exit": o.returncode, "keys": keys[:8], "harness": re.findall(r"^HARNESS-ERROR.*", o.stdout, re.M)[:2]}
    subprocess.run(["git", "-C", wt, "checkout", "-q", "--", "."])
    subprocess.run(["rm", "-rf", os.path.join(wt, "logs")])
    results[name] = r
    json.dump(results, open(RES, "w"), indent=1)
    own = r["checks"][pid]
    print(f"{name}: demo {r['demo_clean']}/{r['demo_patched']} tests[{r['tests']}] own-check exit={own['exit']} keys={own['keys'][:3]} others={ {k: v['exit'] for k, v in r['checks'].items() if k != pid} }", flush=True)
subprocess.run(["git", "-C", "/verif", "checkout", "--", "evidence"])
