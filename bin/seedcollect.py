#!/usr/bin/env python3
"""Writes seeded/<name>/meta.json from the final evaluation (bin/seedfinal.py results) and prints the DESIGN.md 7.1 table."""
import glob, json, os

res = {}
for f in sorted(glob.glob("/tmp/final_*.json") + glob.glob("/tmp/r5final_*.json") + glob.glob("/tmp/r6final_*.json") + glob.glob("/tmp/r7final_*.json") + glob.glob("/tmp/r8final_*.json") + glob.glob("/tmp/r9final_*.json") + glob.glob("/tmp/refinal_*.json")):
    res.update(json.load(open(f)))
first = {}
for f in ("first_round.json", "second_round_first_outcome.json", "third_round_first_outcome.json", "fourth_round_first_outcome.json", "fifth_round_first_outcome.json", "sixth_round_first_outcome.json", "seventh_round_first_outcome.json", "eighth_round_first_outcome.json", "ninth_round_first_outcome.json"):
    p = os.path.join("/verif/seeded", f)
    if os.path.exists(p):
        first.update(json.load(open(p)))
rows = []
raw4 = json.load(open("/verif/seeded/fourth_round_first_run_raw.json"))
raw4.update(json.load(open("/verif/seeded/fifth_round_first_run_raw.json")))
raw4.update(json.load(open("/verif/seeded/sixth_round_first_run_raw.json")))
raw4.update(json.load(open("/verif/seeded/seventh_round_first_run_raw.json")))
raw4.update(json.load(open("/verif/seeded/eighth_round_first_run_raw.json")))
raw4.update(json.load(open("/verif/seeded/ninth_round_first_run_raw.json")))
for name in sorted(res):
    r = res[name]
    pid = name.split("_")[0]
    dst = f"/verif/seeded/{name}"
    if not r.get("tests", "").startswith("3 failed"):
        old = json.load(open(os.path.join(dst, "meta.json")))["confirmed_by"]["test_suite_with_patch"] if os.path.exists(os.path.join(dst, "meta.json")) else raw4[name]["tests"]
        r["tests"] = old
    ok = r.get("demo_clean") == 0 and r.get("demo_patched") not in (0, None) and r.get("tests", "").startswith("3 failed, 129 passed")
    assert ok, (name, r)
    notes = open(os.path.join(dst, "notes.txt")).read().strip() if os.path.exists(os.path.join(dst, "notes.txt")) else ""
    caught = {k: v for k, v in r["checks"].items() if v["exit"] == 1}
    meta = {
        "seed": name,
        "round": 9 if int(name.split("_")[1]) >= 15 else (json.load(open(os.path.join(dst, "meta.json"))).get("round") if os.path.exists(os.path.join(dst, "meta.json")) else (int(name.split("_")[1]) + 1) // 2),
        "breaks_property": pid,
        "needs_to_manifest": notes,
        "confirmed_by": {
            "command": "bin/seedfinal.py in a scratch worktree outside /repo and /verif: demo.py on the clean tree, git apply patch.diff, full pytest suite against the worktree's own sources (PYTHONPATH=<worktree>/src), demo.py again; then ./check <ID> (quick tier) with JASM_REPO=<worktree>",
            "demo_exit_clean": r["demo_clean"], "demo_exit_patched": r["demo_patched"], "test_suite_with_patch": r["tests"]},
        "checks_run_quick_tier": {k: {"exit": v["exit"], "violation_keys": v["keys"]} for k, v in r["checks"].items()},
        "detected_by": sorted(caught),
        "first_run_outcome": first.get(name),
    }
    json.dump(meta, open(os.path.join(dst, "meta.json"), "w"), indent=1)
    line = notes.replace("\n", " ")
    for pre in ("Change:", "CHANGE:", "Change -", "What:"):
        if line.startswith(pre):
            line = line[len(pre):].strip()
    rows.append((name, line[:120], ", ".join(f"{k} ({'; '.join(v['keys'][:2])})" for k, v in caught.items()) or "—", first.get(name, "")))
print("| seed | change (start of the agent's note) | caught by (final checks, quick tier; first keys) | outcome of the first run against the then-current checks |")
print("|---|---|---|---|")
for row in rows:
    print("| " + " | ".join(str(x).replace("|", "\\|") for x in row) + " |")
