#!/usr/bin/env python3
"""Copies every confirmed seeded change into /verif/seeded/<name>/ (patch.diff, demo.py, notes.txt, meta.json) and prints
the markdown table for DESIGN.md 7.1.  Input: /tmp/wt/res{A,B,C}.json written by bin/seedeval.py."""
import glob, json, os, shutil

res = {}
for f in sorted(glob.glob("/tmp/wt/res*.json")):
    res.update(json.load(open(f)))
first = json.load(open("/verif/seeded/first_round.json")) if os.path.exists("/verif/seeded/first_round.json") else {}
rows = []
for name in sorted(res):
    r = res[name]
    pid = name.split("_")[0]
    sd = f"/tmp/wt/{pid}/_seed/{name}"
    ok = r.get("demo_clean") == 0 and r.get("demo_patched") not in (0, None) and "129 passed" in r.get("tests", "")
    if not ok:
        print("NOT CONFIRMED:", name, r)
        continue
    dst = f"/verif/seeded/{name}"
    os.makedirs(dst, exist_ok=True)
    for fn in ("patch.diff", "demo.py", "notes.txt"):
        if os.path.exists(os.path.join(sd, fn)):
            shutil.copy(os.path.join(sd, fn), os.path.join(dst, fn))
    notes = open(os.path.join(sd, "notes.txt")).read().strip() if os.path.exists(os.path.join(sd, "notes.txt")) else ""
    caught = {k: v for k, v in r["checks"].items() if v["exit"] == 1}
    meta = {
        "seed": name,
        "breaks_property": pid,
        "needs_to_manifest": notes,
        "confirmed_by": {"command": "bin/seedeval.py (scratch worktree /tmp/wt/%s): demo.py on the clean tree, git apply patch.diff, full pytest suite, demo.py again" % pid,
                         "demo_exit_clean": r["demo_clean"], "demo_exit_patched": r["demo_patched"], "test_suite_with_patch": r["tests"]},
        "checks_run_quick_tier": {k: {"exit": v["exit"], "violation_keys": v["keys"]} for k, v in r["checks"].items()},
        "detected_by": sorted(caught),
        "detected_in_first_round": first.get(name),
    }
    json.dump(meta, open(os.path.join(dst, "meta.json"), "w"), indent=1)
    own = r["checks"].get(pid, {})
    rows.append((name, notes.splitlines()[0][:110] if notes else "", ", ".join(f"{k} ({'; '.join(v['keys'][:2])})" for k, v in caught.items()) or "—", first.get(name, "")))
print("| seed | change (first line of the agent's note) | caught by (quick tier; first keys) | first round |")
print("|---|---|---|---|")
for row in rows:
    print("| " + " | ".join(str(x).replace("|", "\\|") for x in row) + " |")
