#!/usr/bin/env python3
"""Copies every confirmed seeded change into /verif/seeded/<name>/ (patch.diff, demo.py, notes.txt, meta.json) and prints
the markdown table for DESIGN.md 7.1.  Input: /tmp/wt/res{A,B,C}.json written by bin/seedeval.py."""
import glob, json, os, shutil

res = {}
for f in sorted(glob.glob("/tmp/wt/res*.json")) + sorted(glob.glob("/tmp/wt2/res*.json")):
    res.update(json.load(open(f)))
first = {}
for f in ("/verif/seeded/first_round.json", "/verif/seeded/second_round_first_outcome.json"):
    if os.path.exists(f):
        first.update(json.load(open(f)))
tests = json.load(open("/tmp/wt/seedtests.json"))
rejected = []
rows = []
for name in sorted(res):
    r = res[name]
    pid = name.split("_")[0]
    sd = f"/tmp/wt/{pid}/_seed/{name}" if os.path.isdir(f"/tmp/wt/{pid}/_seed/{name}") else f"/tmp/wt2/{pid}/_seed/{name}"
    tr = tests.get(name, {})
    ok = tr.get("demo_clean") == 0 and tr.get("demo_patched") not in (0, None) and tr.get("tests", "").startswith("3 failed, 129 passed") and not tr.get("extra_failures")
    if not ok:
        rejected.append((name, tr.get("tests"), tr.get("extra_failures")))
        continue
    r["tests"] = tr["tests"] + " (suite run with PYTHONPATH=<scratch worktree>/src)"
    r["demo_clean"], r["demo_patched"] = tr["demo_clean"], tr["demo_patched"]
    dst = f"/verif/seeded/{name}"
    os.makedirs(dst, exist_ok=True)
    for fn in ("patch.diff", "demo.py", "notes.txt"):
        if os.path.exists(os.path.join(sd, fn)):
            shutil.copy(os.path.join(sd, fn), os.path.join(dst, fn))
    notes = open(os.path.join(sd, "notes.txt")).read().strip() if os.path.exists(os.path.join(sd, "notes.txt")) else ""
    caught = {k: v for k, v in r["checks"].items() if v["exit"] == 1}
    meta = {
        "seed": name,
        "breaks_property": pid,
        "needs_to_manifest": notes,
        "confirmed_by": {"command": "bin/seedtests.py + bin/seedeval.py in scratch worktrees outside /repo and /verif: demo.py on the clean tree, git apply patch.diff, full pytest suite against the worktree's own sources (PYTHONPATH=<worktree>/src), demo.py again; then ./check <ID> with JASM_REPO=<worktree>",
                         "demo_exit_clean": r["demo_clean"], "demo_exit_patched": r["demo_patched"], "test_suite_with_patch": r["tests"]},
        "checks_run_quick_tier": {k: {"exit": v["exit"], "violation_keys": v["keys"]} for k, v in r["checks"].items()},
        "detected_by": sorted(caught),
        "detected_in_first_round": first.get(name),
    }
    json.dump(meta, open(os.path.join(dst, "meta.json"), "w"), indent=1)
    own = r["checks"].get(pid, {})
    rows.append((name, notes.splitlines()[0][:110] if notes else "", ", ".join(f"{k} ({'; '.join(v['keys'][:2])})" for k, v in caught.items()) or "—", first.get(name, "")))
print("| seed | change (first line of the agent's note) | caught by (quick tier; first keys) | first round |")
print("|---|---|---|---|")
for row in rows:
    print("| " + " | ".join(str(x).replace("|", "\\|") for x in row) + " |")

print()
print("rejected (the change breaks the repository's own tests when the suite really imports the changed sources):")
for r in rejected:
    print("  ", r)
json.dump({"rejected": rejected}, open("/verif/seeded/rejected.json", "w"), indent=1)
