#!/usr/bin/env python3
"""Final evaluation of every kept seeded change (seeded/<name>/patch.diff) against the current checks.
usage: seedfinal.py <scratch worktree> <result json> <name> [<name> ...]"""
import json, os, re, subprocess, sys

RELATED = {"C01": ["C01", "C07", "C08", "C09", "C10"], "C02": ["C02"], "C03": ["C03"], "C04": ["C04", "C07", "C14"], "C05": ["C05", "C14"], "C06": ["C06", "C09"],
           "C07": ["C07", "C04", "C11"], "C08": ["C08", "C16", "C10"], "C09": ["C09", "C06", "C08", "C10", "C14", "C18"], "C10": ["C10", "C08", "C09", "C14"],
           "C11": ["C11", "C12"], "C12": ["C12", "C11"], "C13": ["C13", "C19", "C14"], "C14": ["C14"], "C15": ["C15", "C14"], "C16": ["C16", "C08"],
           "C17": ["C17", "C19"], "C18": ["C18"], "C19": ["C19", "C13", "C17", "C14"], "C20": ["C20", "C12"]}
wt, resf, names = sys.argv[1], sys.argv[2], sys.argv[3:]
results = json.load(open(resf)) if os.path.exists(resf) else {}
env = dict(os.environ, PYTHONPATH=f"{wt}/src")
for name in names:
    if name in results:
        continue
    pid = name.split("_")[0]
    sd = f"/verif/seeded/{name}"
    subprocess.run(["git", "-C", wt, "checkout", "-q", "--", "."])
    r = {"seed": name}
    c = subprocess.run(["/venv/bin/python", os.path.join(sd, "demo.py")], cwd=wt, env=env, capture_output=True, text=True)
    r["demo_clean"] = c.returncode
    if subprocess.run(["git", "-C", wt, "apply", os.path.join(sd, "patch.diff")]).returncode:
        r["error"] = "patch does not apply"
        results[name] = r
        continue
    if os.environ.get("SKIP_TESTS"):
        r["tests"] = "(confirmed in an earlier evaluation)"
    else:
        t = subprocess.run(["/venv/bin/python", "-m", "pytest", "-q", "-p", "no:cacheprovider", "--timeout=900"], cwd=wt, env=env, capture_output=True, text=True)
        r["tests"] = t.stdout.strip().splitlines()[-1] if t.stdout.strip() else "?"
    p = subprocess.run(["/venv/bin/python", os.path.join(sd, "demo.py")], cwd=wt, env=env, capture_output=True, text=True)
    r["demo_patched"] = p.returncode
    r["checks"] = {}
    for chk in ([pid] if os.environ.get("ONLYOWN") else RELATED[pid]):
        e = dict(os.environ, JASM_REPO=wt, VERIF_TIER="quick")
        vd = os.environ.get("VERIF_DIR", "/verif")
        o = subprocess.run([vd + "/check", chk], cwd=vd, env=e, capture_output=True, text=True)
        keys = sorted(set(re.findall(r"^  key=(\S+)", o.stdout, re.M)))
        r["checks"][chk] = {"exit": o.returncode, "keys": keys[:8]}
    subprocess.run(["git", "-C", wt, "checkout", "-q", "--", "."])
    subprocess.run(["rm", "-rf", os.path.join(wt, "logs")])
    results[name] = r
    json.dump(results, open(resf, "w"), indent=1)
    print(f"{name}: demo {r['demo_clean']}/{r['demo_patched']} tests[{r['tests'][:24]}] " + " ".join(f"{k}={v['exit']}" for k, v in r["checks"].items()) + f" own-keys={r['checks'][pid]['keys'][:3]}", flush=True)
