#!/bin/bash
# Build the overlay venv used by every check (offline, idempotent, locked).
# /verif/.venv = /venv's python + /venv site-packages + /repo/src on the path
#                + crosshair-tool, z3-solver, jsonschema from the local wheelhouse.
set -e
VERIF="$(cd "$(dirname "$0")/.." && pwd)"
VENV="$VERIF/.venv"
WHEELS=/opt/veriftools/wheels
exec 9>"$VERIF/.venv.lock"
flock 9
if [ -x "$VENV/bin/python" ] && "$VENV/bin/python" -c "import z3, crosshair, jsonschema, regex, yaml" 2>/dev/null; then
    exit 0
fi
rm -rf "$VENV"
/venv/bin/python -m venv "$VENV"
SP="$("$VENV/bin/python" -c 'import sysconfig; print(sysconfig.get_paths()["purelib"])')"
printf '%s\n' /venv/lib/python3.12/site-packages > "$SP/zz_base.pth"
PIP_NO_INDEX=1 "$VENV/bin/python" -m pip install --quiet --no-index --find-links "$WHEELS" \
    crosshair-tool z3-solver jsonschema >/dev/null
"$VENV/bin/python" -c "import z3, crosshair, jsonschema, regex, yaml; print('verif venv ready: z3', z3.get_version_string())"
