#!/usr/bin/env python3
"""Regenerates MANIFEST.json (kept in one place so that it stays valid and current)."""
import json
import os

HERE = os.path.dirname(os.path.dirname(os.path.abspath(__file__)))
RX_NOTE = ("Trusted: the third-party `regex` engine implements the regex subset as vlib/rx.py translates it (validated per template "
           "on solver-chosen members/non-members, end to end on rendered witnesses, and on every counterexample); the stream grammar WF "
           "(what C10 asserts); pattern shapes are enumerated from a bounded grammar, only the listing is symbolic (unbounded length, records < 500 chars).")
LX_NOTE = ("Trusted: Python's re engine; the objdump line grammar G is an assumption validated on every run against the sandbox's objdump "
           "(random bytes in three modes + the repo's binaries). The cascade (order, constants, group wiring) is re-read from the AST on every run.")
CH_NOTE = ("CrossHair explores the real functions path by path with z3; inputs are shaped (fixed length per symbolic string, enumerated length tuples, "
           "small ints/lists); C-level boundaries (regex, subprocess, open, int(s,16)) are contract stubs listed in the evidence. 'Not confirmed' is reported as inconclusive, never as success.")
TV, MC, FE = "translation_validation", "model_checking", "fault_enumeration"
checks = []


def add(pid, level, text, note, tech, ref, engine):
    checks.append({
        "property_id": pid, "quick_cmd": f"./check {pid} --tier quick", "thorough_cmd": f"./check {pid} --tier thorough",
        "evidence_file": f"evidence/{pid}.json", "replay_cmd_template": f"./check {pid} --replay {{path}}", "engine": engine,
        "level_claimed": {"category": level, "text": text, "design_ref": ref}, "level_note": note, "technique": tech})


add("C01", TV, "For each template of the item-sequence grammar (all 4 flag settings) the regex produced by the real compiler is translated to a z3 regular expression and shown language-equal, including match extents, to a reference language written from the property; z3 decides it for every listing at once.", RX_NOTE, "SMT (z3 seq/regex theory) language equivalence of the real compiler's output vs. a reference language; counterexamples replayed on the real engine", "DESIGN.md 2/C01", "RX")
add("C02", TV, "Same engine: A, X^{times}, B templates for every bound pair and both YAML spellings; coloured match extents decide that each repetition consumes exactly one occurrence; n copies and times:n are both compared with the same reference.", RX_NOTE, "SMT regex-language equivalence with coloured match extents", "DESIGN.md 2/C02", "RX")
add("C03", TV, "Same engine: exhaustive depth-1/2 and seeded deeper nestings of $and/$or/$and_any_order at instruction, operand and $deref-field level, wrapped in sentinels.", RX_NOTE + " Any-order groups with >=3 children are checked under full-match flags (substring mode times out in z3).", "SMT regex-language equivalence", "DESIGN.md 2/C03", "RX")
add("C04", TV, "Same engine: $not in leading/inner/trailing/repeated/operand position with single and multi-instruction arguments; anchoring lemmas SA/HX decide where a leading $not may start.", RX_NOTE, "SMT regex-language equivalence + anchoring lemmas", "DESIGN.md 2/C04", "RX")
add("C05", TV, "Back-references are expanded over a finite capture domain (prefix/extension pairs included): for every binding g the regex R[g] is compared with Spec[g] for every listing; register families over the x86-64 register vocabulary.", RX_NOTE + " Bound: capture values in the stated finite domain, <=3 names.", "SMT regex-language equivalence after bounded back-reference expansion", "DESIGN.md 2/C05", "RX")
add("C06", TV, "Compiler half: every present/absent field combination, %/0x spellings, scales, displacements, as languages over the domain of normalised AT&T memory operands. Parser half: CrossHair on the real operand normaliser per AT&T form. Composition through the shared bracket grammar plus end-to-end replay of solver witnesses rendered as k(a,b,c) text.", RX_NOTE + " " + CH_NOTE, "SMT regex-language equivalence + CrossHair symbolic execution of the operand normaliser", "DESIGN.md 2/C06", "RX+CH")
add("C07", TV, "Lemmas SA, HX (start inside an address, extends to its start), EA (ends after '|'), NE (non-empty), AEM (every element confined to its field) for every operator in leading position, operand-count mismatches and the shipped @any macro.", RX_NOTE, "SMT regex-language lemmas on alignment", "DESIGN.md 2/C07", "RX")
add("C08", MC, "The line classifier's regex constants and cascade (read from the AST) are translated to languages; z3 shows every instruction line of the objdump grammar is handled by an instruction step with group1=address, group2=first token (unique decomposition), every non-instruction line is rejected; CrossHair shows no operand form makes the operand parser raise.", LX_NOTE + " " + CH_NOTE, "SMT regex-language inclusion with capture-group colouring + CrossHair", "DESIGN.md 2/C08", "LX+CH")
add("C09", MC, "CrossHair executes the real _process_operand_elem symbolically for each AT&T operand form and tuple of part lengths and confirms the normal-form text over all paths; the split regex (read from the source) is shown by z3 to split exactly at separator commas for every operand list of the grammar.", CH_NOTE + " " + LX_NOTE, "CrossHair symbolic execution + SMT regex lemma for the split points", "DESIGN.md 2/C09", "CH+LX")
add("C10", MC, "z3: the mnemonic / address / operand-token groups extracted by the real line regexes are separator-free for every grammar line; CrossHair: the record text built by stringify/consume/finalize equals addr::mnem,ops,| (one empty field without operands) and memory operands are rewritten to bracket text. Recoverability follows by construction of the grammar (not put to the solver: word equations do not terminate).", LX_NOTE + " " + CH_NOTE, "SMT regex-language emptiness queries on capture groups + CrossHair", "DESIGN.md 2/C10", "LX+CH")
add("C13", TV, "Generated (macro rule, inlined rule) pairs through the real Yaml2Regex: identical texts are equal trivially; differing texts go to z3 (language and extent equality); additionally the macro rule's matcher is compared with the reference language of the inlined pattern for every listing.", RX_NOTE + " The factoring axis is enumerated (MacroExpander uses match/case class patterns).", "SMT regex-language equivalence of two compiled matchers", "DESIGN.md 2/C13", "RX")
add("C16", MC, "Same lemmas as C08 read over the presentation parts of the grammar (indentation, byte column of any width, annotation, comment are free sub-languages), plus the productions without a byte column and label lines with arbitrary symbol text.", LX_NOTE, "SMT regex-language inclusion with capture-group colouring", "DESIGN.md 2/C16", "LX")
add("C19", TV, "Defined references in 10 position kinds x orders x files: matcher equals the inlined rule's reference language (z3). Undefined references / bad names: must raise naming the macro (finite shapes, concrete); a silently compiled rule is characterised by a z3 query (unsatisfiable on @-free listings).", RX_NOTE, "SMT regex-language equivalence + exhaustive finite shapes", "DESIGN.md 2/C19", "RX")

REASON = "check under construction in this session (see DESIGN.md); not yet claimed"
claimed = {c["property_id"] for c in checks}
na = [{"property_id": f"C{i:02d}", "reason": REASON} for i in range(1, 21) if f"C{i:02d}" not in claimed]
m = {
    "version": 1,
    "setup_cmd": "bin/setup.sh",
    "hooks": {"guard": "JASM_VERIF", "enable": "no source hooks: every stub is installed by the harness through module attributes at run time; checks export JASM_VERIF=1 for uniformity",
              "baseline_off_cmd": "cd /repo && /venv/bin/python -m pytest -ra -q -p no:cacheprovider --timeout=900 --continue-on-collection-errors", "source_commits": [], "add_only": True},
    "engines": [
        {"name": "RX", "path": "vlib/rx.py vlib/spec.py vlib/lemmas.py vlib/oracle.py", "serves_properties": ["C01", "C02", "C03", "C04", "C05", "C06", "C07", "C13", "C19"], "kind_free_text": "real compiler output -> z3 regex terms; the listing is one free string"},
        {"name": "LX", "path": "vlib/lx.py vlib/lx_grammar.py checks/lxprops.py", "serves_properties": ["C08", "C09", "C10", "C16"], "kind_free_text": "line-classifier regex constants + cascade recovered from the AST -> z3 regex terms over the objdump line grammar"},
        {"name": "CH", "path": "vlib/ch.py", "serves_properties": ["C06", "C08", "C09", "C10"], "kind_free_text": "CrossHair symbolic execution of the real Python functions on generated, shaped harnesses"},
    ],
    "checks": checks,
    "not_applicable": na,
    "notes": "Known findings and fixes: KNOWN_FINDINGS.txt. Exit codes: 0 held, 1 violation, 2 harness error (encoding failed, twin not refuted, counterexample not reproducible).",
}
json.dump(m, open(os.path.join(HERE, "MANIFEST.json"), "w"), indent=1)
print("claimed:", sorted(claimed))
